#!/usr/bin/env python3
"""Regenerates /verif/MANIFEST.json from the table below (kept in one place so it is always valid)."""
import json, os, sys
HERE = os.path.dirname(os.path.dirname(os.path.abspath(__file__)))
props = [json.loads(l) for l in open(os.path.join(HERE, "properties.jsonl"))]
ids = [p["id"] for p in props]

S = "stateless model checking of the real code: controlled scheduler (vsync shim injected by go build -overlay) + depth-first enumeration of every schedule/select/fault choice up to an iterated preemption/deviation bound"
H = "explicit-state bounded model checking of the real object: breadth-first enumeration of every operation sequence over a small collision-forcing alphabet up to a depth, each step compared with a reference model"
I = "exhaustive enumeration of a structured finite input/environment-answer family on the real functions against a reference model"

CHECKS = {
 "C13": dict(engine="S", tech=S, ref="DESIGN.md §3 C13",
   text="All interleavings (preemption bound 2 quick / 3 thorough, every select resolution) of k consumers, producers and a closer on the six real queue types; deadlock = lost wake-up; the priority-queue wait-channel invariant is evaluated at every scheduling decision.",
   note="vsync model of sync.Mutex/Cond/channels; data-race freedom of the scenarios; bounds T<=6 threads"),
 "C20": dict(engine="I", tech=I, ref="DESIGN.md §3 C20",
   text="Round trips over boundary value sets through the types' own methods, encoding/json and jsoniter, and every JSON scalar token up to length 6 (quick) / 7 (thorough) over a 14-character alphabet plus long-digit and junk tokens fed to every UnmarshalJSON, each compared with an arbitrary-precision reading of the token.",
   note="token alphabet and length bound; math/big as the reference reading"),
 "C11": dict(engine="H", tech=H, ref="DESIGN.md §3 C11",
   text="Breadth-first over every sequence of ~55 buffer calls (depth 4 quick / 5 thorough, five constructor start states) applied to tex.Buffer and the toolchain's bytes.Buffer side by side; results, errors, panic messages, Len/Bytes/String compared after every step; states merged only when the complete private state of both buffers agrees. ReWrite/NewSizedBuffer against a byte-slice model.",
   note="bytes.Buffer of the installed toolchain is the reference; Unread* directly after Grow and Cap() excluded by the property"),
 "C10": dict(engine="H+I", tech=H+"; "+I, ref="DESIGN.md §3 C10",
   text="Every sequence of typed writes (length <= 3 quick / 4 thorough over ~95 boundary-valued items) read back through three read paths; every reader method on all byte strings up to length 5/6 over {00,01,7f,80,ff}, every truncation of every valid encoding and oversized varints/length prefixes against reference decoders; stream reader vs buffer reader under every chunking of inputs up to 12/14 bytes with both legal end-of-stream styles; in-place rewrites against a byte-slice model.",
   note="reference decoders written in the harness; stream-reader string reads with announced length > 64 KiB are not executed (allocation size, outside the statement)"),
 "C08": dict(engine="I", tech=I, ref="DESIGN.md §3 C08",
   text="64-bit layer: every word with popcount <=2 or >=62, every interval, every 16-bit lane pattern and complement, through all 10 iterators and 8 GetN forms for n in {-1,0,1,2,l-1,l,l+1,64,65}, with the sparse threshold set to popcount-1/popcount/popcount+1/9 so both traversal branches run on every word. 1024-bit layer: subsets of a 12-index boundary alphabet with complements and per-word class vectors through 8 iterators and 6 GetN forms under thresholds 0/2/9/64; Set/Unset over int16/int32 indices; algebra on all pairs of a subfamily. Boolean-array model.",
   note="structured families instead of all 2^64 / 2^1024 values; hook VerifSetSparseMagic (overlay) forwards to the internal setter"),
 "C09": dict(engine="I", tech=I, ref="DESIGN.md §3 C09",
   text="Marshal->Unmarshal->Equal over member counts around the 63/64 encoding switch in five placements and all subsets of a 12-index alphabet; Unmarshal of all byte strings of length 0..2, length 3-4 over a 6-byte alphabet and structured fills (zero/ff/ascending/one invalid element at each position/duplicates) for every length 5..130 against the denoted set; 64-bit and 32-bit block types over boundary starts (2^22±1, 2^31, 2^32-2, max) with every in-block offset for the tips: iterate-back, same-block acceptance, ascending/descending.",
   note="structured families instead of all int64/uint32; list-form reverse order of BigU32s is only checked for count (statement is silent on list order)"),
 "C06": dict(engine="H", tech=H, ref="DESIGN.md §3 C06",
   text="Every history of clock readings relative to the generator's current millisecond (backwards, stalled, forward, far future; restart with the last id) up to length 5 quick / 7 thorough on the real HardNode from start states seeded at the step wrap; MonoNode under a virtual non-decreasing clock with stalled readings inside its spin loop after a 4094-call warm-up; UnixNanoID ts histories of length 7/9; each of the 12 layouts (node bits x node-at-lowest x epoch) in its own process.",
   note="clock seams: snowflake._HookNow via overlay hook, time.Now/Since in mono.go and nano.go redirected to zverif/vtime by the overlay; readings stay inside the timestamp width; concurrent clause: engine-S companion harness/c06s - 2-3 goroutines x 1-2 Generate calls with the explorer deciding at every clock reading whether the clock stalls, advances or (wall clock) steps back: ids distinct, per-thread increasing, real-time order respected (coarse and fine mode)"),
 "C07": dict(engine="I", tech=I, ref="DESIGN.md §3 C07",
   text="Per layout (3 node widths x node-at-lowest x 3 epochs, one process each): ids from a boundary timestamp family (0,1,999..,2^k±1,max width, calendar boundaries ±1 ms for 2000-2300, every millisecond of windows at 8 anchor dates) x (node,step) corners plus ALL low-bit values for 1 (quick) / 3 (thorough) timestamps: IDFields/recombine, IDParse/IDParseEx, CnStyle/FromChStyle (24 chars, exact text), order of adjacent ids; TimeBetweenID/TimeIDRange for all ordered pairs of boundary instants with ids probed around both endpoints.",
   note="structured family instead of all 2^63 ids; config globals set through the overlay hook VerifSetConfig"),
 "C12": dict(engine="H", tech=H, ref="DESIGN.md §3 C12",
   text="Per queue type (q.Q, async.Q, mux.Q, mq.MQ, SyncQueue, PriQueue) and capacity: plain enumeration of all sequences of non-blocking calls to depth 5 quick / 7 thorough without merging, plus breadth-first with merging on the list-model state to depth 10/14; after every step the result, IsClosed/IsCleared/Len and a complete drain of a replayed copy are compared with a list model (two lists for MQ, stable priority order for PriQueue).",
   note="only calls that cannot block are issued; try-close on a closed / try-clear on a cleared queue may answer either way; PriQueue capacity 0 left out"),
 "C04": dict(engine="H", tech=H, ref="DESIGN.md §3 C04",
   text="Breadth-first to a fixpoint over all operation sequences (Set/SetIfAbsent/SetAndGetRemoved x 3 keys x sizes 0,1,2,5, Get/Peek/Exist/Delete, Clear, SetCapacity 0,1,3,4) on the real cache.LRUCache and tiny.LRUCache; state key = (recency order, entry weights, capacity) = the complete observable state; every call result, Keys, Items (value identity), Stats and Size<=Capacity compared with a slice-based ideal LRU after every step. Wide variants (1,2,3 shards, modulo/xxhash) against one ideal LRU per shard, all keys probed after every step.",
   note="SetIfAbsent on a present key may or may not refresh recency; concurrent clause: engine-S companion harness/c04s - 3 threads x 1-2 calls on colliding keys at a capacity that forces eviction, linearizability of the recorded history and of the final Items against the ideal LRU, explored at synchronisation points (preemption bound 3/4) and at every statement boundary of the cache code (fine mode, bound 2)"),
 "C03": dict(engine="H", tech=H, ref="DESIGN.md §3 C03",
   text="Breadth-first to a fixpoint over all operation sequences on the real B-tree for degrees 2,3,4 over 8 keys (11 keys for degree 2 in the thorough tier), states merged on the canonical node shape; on every transition structure, length and full content (with item versions) are compared with a sorted slice, and on every newly reached shape ALL scans from EVERY pivot with early stop after 0/1/2/all items, Min/Max/Get/Has. Two-tree clone programs (writes to either side, re-clone, swap) against two independent models; the locked wrapper with Update/UpdateOrInsert over all key pairs and scans x pivots x 4 filters x 5 limits.",
   note="hooks VerifCheck/VerifShape/VerifInner come from the overlay; concurrent clauses: engine-S companion harness/c03s - readers/writers of the locked wrapper (linearizable w.r.t. the sorted set, coarse and fine mode) and writers of a tree and of its clone in different goroutines (each side equals its own model afterwards)"),
 "C05": dict(engine="H", tech=H, ref="DESIGN.md §3 C05",
   text="Breadth-first over all sequences (depth 5 quick / 7 thorough) of Set (7 option combinations) / Get (plain, remove-after-get, update-ttl) / Remove / Clear / clock advance over 3 keys on the real in-memory TTL cache for size 0..3 x default ttl 0/3 under a virtual clock, states merged on (complete implementation state, reference state); every answer plus a final probe of all keys on a replayed copy is checked against a nondeterministic 'expired = absent' reference with a one-sided eviction clause; the same histories on the in-memory and the redis-backed cache over an in-memory fake redis.Cmdable must agree step by step.",
   note="no clock reading falls exactly on a deadline (odd ttls, +2 s ticks); fake redis implements the seven commands used with expiry at now+duration; concurrent clause: engine-S companion harness/c05s - remove-after-get / set / set-if-absent / remove racing on one key, at most one consuming read per Set, linearizable (coarse and fine mode)"),
 "C17": dict(engine="I+H", tech=I+"; "+H, ref="DESIGN.md §3 C17",
   text="Routing: shard counts 1..128, 211, 509, 1024, 4093 x every supported key type at its boundary values through SimpleIndex and XHashIndex (in range, stable across calls and instances, unsigned integers modulo shards) and SearchIndex on boundary probes (monotone, onto, spans 0..n-1). Containers: breadth-first over operation sequences on (sharded, unsharded) pairs of Map, LRU, tiny LRU, KeyLocker, TKeyLocker incl. multi-key calls, SemMap for 1,2,3,73 shards with modulo and xxhash routing; answers and hook-observed per-key state compared after every step.",
   note="the 2^64 hash values between probes are covered by monotonicity only; LRU capacity chosen so the per-shard bound never binds; only non-blocking lock/semaphore calls; a HitGroup that is not a Bs is not routed through xxhash (undefined)"),
 "C18": dict(engine="I", tech="exhaustive fault enumeration: every step list up to a length x every begin/commit/rollback fault pattern, executed on the real Transact over a recording in-process database/sql driver", ref="DESIGN.md §3 C18",
   text="Every step list of length 0..3 quick / 0..5 thorough over {ok, ok+Exec, returns error, Exec fails, panics(string), panics(error), panics(nil)} x begin ok/fails x commit ok/fails x rollback ok/fails x {plain, Combine(all), Combine(tail), nested Combine} through gormx.Transact on gorm's MySQL dialector over a recording in-process driver: exactly one of commit/rollback, commit iff all steps succeeded, no step after the first failure, result identity, no escaping panic, nothing begun with no steps.",
   note="a failing driver callback has no effect; panic(nil) has the go 1.21 semantics of the harness module"),
 "C19": dict(engine="H+I", tech=H+"; "+I, ref="DESIGN.md §3 C19",
   text="For each of 128 configurations (code length x attempt limit x send limit x lifetime valid/expired x interval never/always x window never/always refreshed x mock on/off, clock frozen) every sequence up to depth 5 quick / 6 thorough of Send and Verify(right|wrong code x right|wrong hash, other pair's credentials) over two (area, phone) pairs on the real logic with a capturing SMS sender, against a per-pair reference of (code, hash, attempts, sends); pairs whose plain concatenations collide; the nonce generator driven with every index answer its source can give.",
   note="time.Now in vlogic.go redirected to a frozen virtual clock by the overlay; boundary send (MaxCount+1) may be accepted or refused"),
 "C01": dict(engine="S", tech=S, ref="DESIGN.md §3 C01",
   text="All interleavings (preemption bound 3 quick / 5 thorough for 3-thread programs, 2/3 for 4-thread ones; every select resolution) of readers, writers, context cancellers and holders on the real SemMap, WideSemMap and WideXHashSemMap for rwRatio 1..3 and 1..3 shards: per-key holder counters at every entry, black-box arrival order, failed acquires never enter, deadlock = lost hand-off (cancel re-notify), entry residue checked at every scheduling decision and at the end, leaked-token probe.",
   note="vsync model of Mutex/close-broadcast channels/select; data-race freedom of scenario bodies; T<=5 threads, 2 keys"),
 "C02": dict(engine="S", tech=S, ref="DESIGN.md §3 C02",
   text="All interleavings (preemption bound 3 quick / 5 thorough, 2/3-4 for the 4-thread and 3-key programs) of Lock/RLock/Locks/RLocks - hold - unlock programs on the real KeyLocker, KeyLockerGrp, TKeyLocker[int], TKeyLockerGrp[int] (modulo and xxhash, 1..3 shards) incl. the pending-writer phase of the per-key RWMutex: per-key holder counters at every entry, key independence (one key held until another key's critical section finished), ordered multi-key lists with shard order different from list order, deadlock detection, entry residue at every quiescent scheduling decision and at the end.",
   note="vsync model of Mutex/RWMutex; consistently ordered duplicate-free lists only (the property's own restriction); T<=4 threads, 3 keys"),
 "C14": dict(engine="S+I", tech=S+"; "+I, ref="DESIGN.md §3 C14",
   text="All interleavings (preemption bound 2 quick / 3 thorough; 1/2 for three lanes; every select resolution) of callers, context cancellers, Run and Stop on the real line.Line, mline.MultiLine (1-3 slots), async.RunnerQ (AsyncCall via reflection, AsyncDelegate, AsyncProc) and async.ProcChan, the callee recording start/end per lane: at most one start per call, no overlap inside a lane, accepted order = start order (pre-cancelled-context trick), own result or own context error, equal hash = same lane = IndexOf in range, refusal only after Stop, no callee for a call issued after Stop returned, accepted calls complete (deadlock otherwise), lanes terminate; NormalizeSlotIndex/IndexOf over [-300,300], extreme integers incl. MinInt, 1..64 and 509 lanes. State cache on the happens-before fingerprint (cross-checked against uncached exploration).",
   note="vsync model of Mutex/Cond/Once/WaitGroup/buffered channels/select; harness contexts; T<=7 threads"),
 "C15": dict(engine="S", tech=S+" with enumerated store faults", ref="DESIGN.md §3 C15",
   text="All interleavings (preemption bound 1-2, at most 1 injected store failure chosen by the explorer at any callback; free choices <= 3/5 with two workers) of 2-3 callers issuing the seven operations on colliding keys over an instrumented in-memory store, for map and LRU caches and 1-2 workers, plus ALL operation sequences of length 3 quick / 4 thorough over two keys with every failure placement: store callbacks of one key never overlap, accepted order = store order, whenever no operation on a key is in flight the cached value equals the store's (every scheduling decision and after every operation), successful delete leaves no cache entry, add on a cached key = duplicate error without a store call.",
   note="a failing store callback leaves the store unchanged; cache observed through the overlay hook VerifCachePeek in inspect mode (no schedule point)"),
 "C16": dict(engine="S", tech=S+" with enumerated I/O faults", ref="DESIGN.md §3 C16",
   text="All interleavings (preemption bound 2-3 quick / 3-4 thorough for one session, 1 with a free-choice bound for two sessions and the accept loop; every select resolution) of the two session goroutines with local Send/Close, a writing/closing peer, a read handler that may panic and explorer-chosen injected read/write errors and timeouts (budget 1 quick / 2 thorough) over a fake net.Conn built from scheduler-visible channels; the accept loop over a fake listener with 1-3 connections and maximum 1-2: exit callback exactly once, connection closed, both goroutines finished, count back to zero / never negative / never above the maximum at any scheduling decision, surplus connections closed, bytes accepted before a local Close delivered completely and in order.",
   note="kernel TCP replaced by a fake net.Conn (Read blocks on a channel, Close wakes it; in the untimed scenarios deadlines are no-ops and timeouts are injected choices, in the timed ones deadlines are honoured on a virtual clock and time.Now in stcp/sess.go is redirected to it); accept loop entered through the overlay hook VerifLoopAccept"),
}
NA = {}
# clauses added when seeded changes showed a gap (appended to the level text)
EXTRA = {
 "C01": " Fine-mode variants (schedule points at every statement boundary of the semaphore code). Constructor family: all ordered pairs of the three constructors x ratio default/1/2/12, each container's observed reader bound checked after the other was built (options must not leak between containers).",
 "C02": " Many-holder programs (counter width), 13- and 21-key multi-key lists with several keys per shard against short lists on the same shards, fine-mode variants.",
 "C04": " Removed/evicted results held by the caller stay part of the state key; Keys/Items results are re-read after later calls (aliasing); an object handed back by the cache is resized and set again.",
 "C05": " Sets from one caller-owned slice that is reused and read back after every step (aliasing); specs run one per worker process, depth 6 quick / 8 thorough (redis facade 7/9). The fake redis follows the documented SCAN contract (paged, possibly empty pages, stable cursor); a second agreement spec shares the database with 52 keys of other prefixes, which must stay untouched.",
 "C06": " Start timestamps near the top of the timestamp width. Five more epochs (before 1970 with and without a millisecond fraction, 1970, a fraction after 1970). Burst histories: letters are 4095/4096/4097 calls at one clock reading, single calls and restarts (second and third step wrap, wrap after restart, wrap while the clock is behind), depth 4 quick / 5 thorough.",
 "C07": " Calendar sweep: every calendar day the timestamp width reaches from each epoch (first millisecond, the millisecond before, a day-dependent time of day) x 2 (node,step) corners through the same round trips. Range functions on the same instants presented in 11 Locations (odd fixed offsets, daylight-saving zones around every transition of 2022-2024) must agree.",
 "C08": " Iterator counts at the ends of the int range (MaxInt32, MaxInt-3..MaxInt, MinInt, MinInt+1, -2) at pos 0 and 3. GetN calls are guarded: a panic inside the library is a reported violation, not a harness crash.",
 "C09": " Alias probes (decoded sets must not share memory with the input), all 3-byte strings; round trip of every run of 1..65 consecutive indices at every start and of stride-2/3 combs.",
 "C10": " Reset-and-reuse family: every constructor x message sizes around every allocation threshold up to 1 MiB x three ways of filling x consumed 0/1/all; empty after Reset; the next message round-trips; two cycles.",
 "C11": " A second alphabet of 24 calls whose sizes straddle the growth machinery (1..1010-byte writes, Next 1..1000, ReadFrom with chunkings around MinRead=512, Grow 1/512/600) from zero and 600/1024/1028-byte sized buffers, depth 4 quick / 5 thorough.",
 "C12": " Extreme priorities (min/max int) in the priority queue.",
 "C13": " Fine-mode variants (schedule points at every statement boundary of the queue code). Producer programs mixing the ordinary and the prior add; programs mixing blocking Pop with TryPop (sync queue).",
 "C14": " Stop before Run; one CallCtx object reused on a 2-lane and a 3-lane MultiLine (lane = IndexOf(hash) of the executor it was given to); executor options do not leak (all ordered triples of option sets through pipe.GetOption, a default MultiLine after a configured one).",
 "C15": " An LRU configuration in which every second value (cache.Value, Size 3) is bigger than the whole LRU; a configuration in which every second value written is the untyped nil; worker-count options do not leak between groups (all ordered pairs of default/2/3 workers); a configuration with queue depth 1 (a third concurrent operation is refused).",
 "C16": " Injected Close / SetReadDeadline / SetWriteDeadline errors; Send and Close issued before Start; timed scenarios: a connection that honours read/write deadlines on a virtual discrete-event clock (silent peer, peer that does not read, heartbeats while a write is pending): a pending read/write expires at the deadline its own loop armed; manager timeouts do not leak between managers (all ordered pairs of three configurations, read off the armed deadlines). The echo manager (stcp/echo.go) behind the same accept loop: count never above the maximum, surplus connections closed.",
 "C17": " Constructor parameters: the four sharded LRU constructors x 1..211 shards x capacity 1,2,shards-1..shards+1,2*shards+1: every key of a family reaches an existing shard, is readable right after Set and gone after Delete; the shard-count option does not leak between ReMap instances (all ordered triples of default/2/3/211). Binding capacity: sharded LRUs (1-2 shards, capacity 1/3, both variants and routings) against per-shard unsharded LRUs routed by the public index - every answer and eviction, all sequences to depth 4/5, no state merging.",
 "C18": " Special error values (gorm.ErrInvalidTransaction, sql.ErrTxDone, driver.ErrBadConn, context errors) as step results; nested Transact on the step's own handle (result ignored / returned) and Transact on a handle the caller already began a transaction on: no step, an error, no driver event, the caller's transaction still finishable. Lists of length <= 2 also under the global log levels info/error/dpanic/fatal.",
 "C19": " Long single-pair attempt histories up to the attempt/send limits + 2. Small-cache family: record cache of 1-3 entries and one destination more, all sequences (depth 6/7) of sends and right/wrong verifies - a sent code stays verifiable until CacheSize other destinations were used.",
 "C20": " Base64Bytes.Scan of every text up to length 5 quick / 6 thorough over payload / padding / url-alphabet / blank / CR / LF characters and of line-wrapped encodings of 0..130 bytes, as string and as []byte, against a bitwise reference decoder. Round-trip value set extended by every decimal and binary magnitude (10^k, 10^k+-1, 1.5x10^k, 9.9x10^k, 2^k+-1, duration unit boundaries), both signs.",
}

def main():
    checks = []
    for i in ids:
        if i not in CHECKS: continue
        c = CHECKS[i]
        checks.append({
            "property_id": i,
            "quick_cmd": f"bin/check {i} --tier quick",
            "thorough_cmd": f"bin/check {i} --tier thorough",
            "evidence_file": f"/verif/evidence/{i}.json",
            "replay_cmd_template": f"bin/check {i} --replay {{path}}",
            "engine": c["engine"],
            "level_claimed": {"category": "model_checking", "text": c["text"] + EXTRA.get(i, ""), "design_ref": c["ref"]},
            "level_note": c["note"],
            "technique": c["tech"],
        })
    na = [{"property_id": i, "reason": NA.get(i, "check not built yet in this round (planned, see DESIGN.md §3); not claimed until its harness exists")} for i in ids if i not in CHECKS]
    m = {
        "version": 1,
        "setup_cmd": "bin/setup",
        "hooks": {
            "guard": "verif (Go build tag). /repo carries no hook commits: hook files live in /verif/engine/hooks/<pkg>/ with //go:build verif and are added to the packages by go build -overlay, as are the scheduler shim packages zverif/vsync and zverif/vatomic and the clock seam zverif/vtime (time.Now/Since/Sleep redirected in the files listed in engine/time_redirect.txt)",
            "enable": "go build -tags verif -overlay <generated by .build/instr from /repo's current tree> (bin/check does this on every run)",
            "baseline_off_cmd": "cd /repo && GOFLAGS=-mod=mod go test -json -vet=off -count=1 -timeout 25m ./...",
            "source_commits": [],
            "add_only": True,
        },
        "engines": [
            {"name": "S", "path": "engine/vsync engine/instr harness/mc", "serves_properties": [i for i in ids if CHECKS.get(i, {}).get("engine", "").find("S") >= 0], "kind_free_text": "controlled scheduler + stateless DFS schedule explorer over rewritten neptune sources"},
            {"name": "H", "path": "harness/seq", "serves_properties": [i for i in ids if CHECKS.get(i, {}).get("engine", "").find("H") >= 0], "kind_free_text": "bounded-exhaustive operation-sequence explorer against reference models"},
            {"name": "I", "path": "harness/seq", "serves_properties": [i for i in ids if CHECKS.get(i, {}).get("engine", "").find("I") >= 0], "kind_free_text": "exhaustive structured input / environment-answer enumeration"},
        ],
        "checks": checks,
        "not_applicable": na,
        "notes": "Every explored trace is a trace of the real implementation (no separate model language). See DESIGN.md.",
    }
    json.dump(m, open(os.path.join(HERE, "MANIFEST.json"), "w"), indent=1)
    print("checks:", len(checks), "not_applicable:", len(na))
main()
