#!/usr/bin/env python3
"""Rewrites the seeded-change table of DESIGN.md (between the SEED-TABLE markers) from seeded/*/meta.json."""
import json, glob, os, re
here = os.path.dirname(os.path.dirname(os.path.abspath(__file__)))
rows = ["| seed | files changed | needs, to manifest | caught by (quick tier) | history |", "|---|---|---|---|---|"]
for d in sorted(glob.glob(os.path.join(here, "seeded/*/meta.json"))):
    m = json.load(open(d))
    sid = os.path.basename(os.path.dirname(d))
    rows.append("| %s | %s | %s | %s | %s |" % (sid, ", ".join(m["files_changed"]), m["needs_to_manifest"], ", ".join(m["caught_by_checks"]) or "none", m.get("history", "")))
p = os.path.join(here, "DESIGN.md")
s = open(p).read()
s = re.sub(r"<!-- SEED-TABLE-BEGIN -->.*?<!-- SEED-TABLE-END -->", "<!-- SEED-TABLE-BEGIN -->\n" + "\n".join(rows) + "\n<!-- SEED-TABLE-END -->", s, flags=re.S)
open(p, "w").write(s)
print(len(rows) - 2, "seeds")
