// instr generates the go build overlay used by every check:
//   - the virtual packages zverif/vsync and zverif/vatomic inside the neptune module,
//   - the verif-tagged hook files of /verif/engine/hooks/<pkg>/ added to the neptune packages,
//   - in -mode sched: rewritten copies of the concurrency-relevant neptune packages (sync -> vsync,
//     go statements, channel operations and select turned into schedule points).
//
// It is a pure function of the current source text under -repo; nothing is cached.
package main

import (
	"bytes"
	"encoding/json"
	"flag"
	"fmt"
	"go/ast"
	"go/format"
	"go/parser"
	"go/token"
	"os"
	"path/filepath"
	"sort"
	"strconv"
	"strings"
)

const (
	vsyncPath   = "github.com/pinealctx/neptune/zverif/vsync"
	vatomicPath = "github.com/pinealctx/neptune/zverif/vatomic"
	vtimePath   = "github.com/pinealctx/neptune/zverif/vtime"
)

func die(f string, a ...interface{}) {
	fmt.Fprintf(os.Stderr, "instr: "+f+"\n", a...)
	os.Exit(1)
}

func main() {
	repo := flag.String("repo", "/repo", "neptune tree")
	verif := flag.String("verif", "/verif", "verif dir")
	mode := flag.String("mode", "plain", "plain|sched")
	out := flag.String("out", "", "output dir")
	flag.Parse()
	if *out == "" {
		die("-out required")
	}
	_ = os.RemoveAll(*out)
	if err := os.MkdirAll(*out, 0o755); err != nil {
		die("%v", err)
	}
	replace := map[string]string{}

	// virtual packages
	for _, vp := range []string{"vsync", "vatomic", "vtime"} {
		files, _ := filepath.Glob(filepath.Join(*verif, "engine", vp, "*.go"))
		if len(files) == 0 {
			die("no sources for virtual package %s", vp)
		}
		for _, f := range files {
			replace[filepath.Join(*repo, "zverif", vp, filepath.Base(f))] = f
		}
	}
	// hooks
	hookRoot := filepath.Join(*verif, "engine", "hooks")
	_ = filepath.Walk(hookRoot, func(p string, info os.FileInfo, err error) error {
		if err != nil || info.IsDir() || !strings.HasSuffix(p, ".go") {
			return nil
		}
		rel, _ := filepath.Rel(hookRoot, p)
		dir := filepath.Dir(rel)
		if _, err := os.Stat(filepath.Join(*repo, dir)); err != nil {
			die("hook %s: package dir %s missing in repo", rel, dir)
		}
		replace[filepath.Join(*repo, dir, "zz_verif_"+filepath.Base(p))] = p
		return nil
	})

	timeRedirect = map[string]bool{}
	if tr, err := os.ReadFile(filepath.Join(*verif, "engine", "time_redirect.txt")); err == nil {
		for _, line := range strings.Split(string(tr), "\n") {
			line = strings.TrimSpace(line)
			if line != "" && !strings.HasPrefix(line, "#") {
				timeRedirect[filepath.Join(*repo, line)] = true
			}
		}
	}
	schedDirs := map[string]bool{}
	if *mode == "sched" {
		lst, err := os.ReadFile(filepath.Join(*verif, "engine", "sched_packages.txt"))
		if err != nil {
			die("%v", err)
		}
		for _, line := range strings.Split(string(lst), "\n") {
			line = strings.TrimSpace(line)
			if line == "" || strings.HasPrefix(line, "#") {
				continue
			}
			fine := false
			if strings.HasSuffix(line, " fine") {
				fine = true
				line = strings.TrimSpace(strings.TrimSuffix(line, " fine"))
			}
			dir := filepath.Join(*repo, line)
			if fine {
				finePkgs[dir] = true
			}
			ents, err := os.ReadDir(dir)
			if err != nil {
				die("sched package %s: %v", line, err)
			}
			for _, e := range ents {
				n := e.Name()
				if e.IsDir() || !strings.HasSuffix(n, ".go") || strings.HasSuffix(n, "_test.go") {
					continue
				}
				src := filepath.Join(dir, n)
				dst := filepath.Join(*out, "rw", line, n)
				changed, err := rewriteFile(src, dst, true)
				if err != nil {
					die("%s: %v", src, err)
				}
				if changed {
					replace[src] = dst
				}
			}
			schedDirs[dir] = true
		}
	}
	// clock redirect for files outside the sched-rewritten set (plain mode, or packages not rewritten)
	for src := range timeRedirect {
		if schedDirs[filepath.Dir(src)] {
			continue
		}
		if _, err := os.Stat(src); err != nil {
			die("time redirect: %v", err)
		}
		rel, _ := filepath.Rel(*repo, src)
		dst := filepath.Join(*out, "rw", rel)
		changed, err := rewriteFile(src, dst, false)
		if err != nil {
			die("%s: %v", src, err)
		}
		if changed {
			replace[src] = dst
		}
	}
	keys := make([]string, 0, len(replace))
	for k := range replace {
		keys = append(keys, k)
	}
	sort.Strings(keys)
	b, _ := json.MarshalIndent(map[string]interface{}{"Replace": replace}, "", " ")
	if err := os.WriteFile(filepath.Join(*out, "overlay.json"), b, 0o644); err != nil {
		die("%v", err)
	}
	fmt.Printf("overlay: %d entries (mode %s)\n", len(replace), *mode)
}

type rw struct {
	fset    *token.FileSet
	n       int
	usedVsx bool
	done    map[ast.Node]bool
	errs    []string
}

func (r *rw) tmp(p string) *ast.Ident {
	r.n++
	return ast.NewIdent(fmt.Sprintf("_vz%s%d", p, r.n))
}

func (r *rw) vsx(fn string, args ...ast.Expr) *ast.CallExpr {
	r.usedVsx = true
	return &ast.CallExpr{Fun: &ast.SelectorExpr{X: ast.NewIdent("vsx__"), Sel: ast.NewIdent(fn)}, Args: args}
}

func define(lhs ast.Expr, rhs ast.Expr) *ast.AssignStmt {
	return &ast.AssignStmt{Lhs: []ast.Expr{lhs}, Tok: token.DEFINE, Rhs: []ast.Expr{rhs}}
}

func isRecv(e ast.Expr) (*ast.UnaryExpr, bool) {
	for {
		p, ok := e.(*ast.ParenExpr)
		if !ok {
			break
		}
		e = p.X
	}
	u, ok := e.(*ast.UnaryExpr)
	if ok && u.Op == token.ARROW {
		return u, true
	}
	return nil, false
}

func isCloseCall(e ast.Expr) (*ast.CallExpr, bool) {
	c, ok := e.(*ast.CallExpr)
	if !ok || len(c.Args) != 1 {
		return nil, false
	}
	id, ok := c.Fun.(*ast.Ident)
	if ok && id.Name == "close" {
		return c, true
	}
	return nil, false
}

// stmt returns the statements replacing s.
func (r *rw) stmt(s ast.Stmt) []ast.Stmt {
	if r.done[s] {
		return []ast.Stmt{s}
	}
	switch x := s.(type) {
	case *ast.GoStmt:
		call := x.Call
		if fl, ok := call.Fun.(*ast.FuncLit); ok && len(call.Args) == 0 {
			return []ast.Stmt{&ast.ExprStmt{X: r.vsx("Go", fl)}}
		}
		var pre []ast.Stmt
		f := r.tmp("f")
		pre = append(pre, define(f, call.Fun))
		var args []ast.Expr
		for _, a := range call.Args {
			t := r.tmp("a")
			pre = append(pre, define(t, a))
			args = append(args, t)
		}
		inner := &ast.CallExpr{Fun: f, Args: args, Ellipsis: call.Ellipsis}
		lit := &ast.FuncLit{Type: &ast.FuncType{Params: &ast.FieldList{}}, Body: &ast.BlockStmt{List: []ast.Stmt{&ast.ExprStmt{X: inner}}}}
		pre = append(pre, &ast.ExprStmt{X: r.vsx("Go", lit)})
		return []ast.Stmt{&ast.BlockStmt{List: pre}}
	case *ast.ExprStmt:
		if u, ok := isRecv(x.X); ok {
			c := r.tmp("c")
			rv := &ast.ExprStmt{X: &ast.UnaryExpr{Op: token.ARROW, X: c}}
			r.done[rv] = true
			r.done[rv.X] = true
			return []ast.Stmt{&ast.BlockStmt{List: []ast.Stmt{define(c, u.X), &ast.ExprStmt{X: r.vsx("BeforeRecv", c)}, rv}}}
		}
		if c, ok := isCloseCall(x.X); ok {
			return []ast.Stmt{&ast.ExprStmt{X: r.vsx("Close", c.Args[0])}}
		}
	case *ast.DeferStmt:
		if c, ok := isCloseCall(x.Call); ok {
			x.Call = r.vsx("Close", c.Args[0])
			return []ast.Stmt{x}
		}
	case *ast.AssignStmt:
		if len(x.Rhs) == 1 {
			if u, ok := isRecv(x.Rhs[0]); ok {
				c := r.tmp("c")
				nu := &ast.UnaryExpr{Op: token.ARROW, X: c}
				x.Rhs[0] = nu
				r.done[x] = true
				r.done[nu] = true
				return []ast.Stmt{define(c, u.X), &ast.ExprStmt{X: r.vsx("BeforeRecv", c)}, x}
			}
		}
	case *ast.DeclStmt:
		// var v = <-c
		if gd, ok := x.Decl.(*ast.GenDecl); ok && gd.Tok == token.VAR {
			for _, sp := range gd.Specs {
				vs := sp.(*ast.ValueSpec)
				if len(vs.Values) == 1 {
					if u, ok := isRecv(vs.Values[0]); ok {
						c := r.tmp("c")
						nu := &ast.UnaryExpr{Op: token.ARROW, X: c}
						vs.Values[0] = nu
						r.done[nu] = true
						return []ast.Stmt{define(c, u.X), &ast.ExprStmt{X: r.vsx("BeforeRecv", c)}, x}
					}
				}
			}
		}
	case *ast.SendStmt:
		c := r.tmp("c")
		ns := &ast.SendStmt{Chan: c, Value: x.Value}
		r.done[ns] = true
		return []ast.Stmt{&ast.BlockStmt{List: []ast.Stmt{define(c, x.Chan), &ast.ExprStmt{X: r.vsx("BeforeSend", c)}, ns}}}
	case *ast.SelectStmt:
		return []ast.Stmt{r.selectStmt(x)}
	}
	return []ast.Stmt{s}
}

func (r *rw) selectStmt(x *ast.SelectStmt) ast.Stmt {
	var pre []ast.Stmt
	var cases []ast.Expr
	hasDefault := false
	sw := &ast.SwitchStmt{Body: &ast.BlockStmt{}}
	idx := 0
	for _, cl := range x.Body.List {
		cc := cl.(*ast.CommClause)
		if cc.Comm == nil {
			hasDefault = true
			sw.Body.List = append(sw.Body.List, &ast.CaseClause{List: nil, Body: cc.Body})
			continue
		}
		c := r.tmp("c")
		var comm ast.Stmt
		switch cm := cc.Comm.(type) {
		case *ast.SendStmt:
			pre = append(pre, define(c, cm.Chan))
			ns := &ast.SendStmt{Chan: c, Value: cm.Value}
			r.done[ns] = true
			comm = ns
			cases = append(cases, r.vsx("S", c))
		case *ast.ExprStmt:
			u, ok := isRecv(cm.X)
			if !ok {
				r.errs = append(r.errs, "select: unsupported comm clause")
				return x
			}
			pre = append(pre, define(c, u.X))
			nu := &ast.UnaryExpr{Op: token.ARROW, X: c}
			ne := &ast.ExprStmt{X: nu}
			r.done[ne] = true
			r.done[nu] = true
			comm = ne
			cases = append(cases, r.vsx("R", c))
		case *ast.AssignStmt:
			if len(cm.Rhs) != 1 {
				r.errs = append(r.errs, "select: unsupported assign comm clause")
				return x
			}
			u, ok := isRecv(cm.Rhs[0])
			if !ok {
				r.errs = append(r.errs, "select: unsupported assign comm clause")
				return x
			}
			pre = append(pre, define(c, u.X))
			nu := &ast.UnaryExpr{Op: token.ARROW, X: c}
			cm.Rhs[0] = nu
			r.done[cm] = true
			r.done[nu] = true
			comm = cm
			cases = append(cases, r.vsx("R", c))
		default:
			r.errs = append(r.errs, "select: unsupported comm clause kind")
			return x
		}
		body := append([]ast.Stmt{comm}, cc.Body...)
		sw.Body.List = append(sw.Body.List, &ast.CaseClause{List: []ast.Expr{&ast.BasicLit{Kind: token.INT, Value: strconv.Itoa(idx)}}, Body: body})
		idx++
	}
	hd := "false"
	if hasDefault {
		hd = "true"
	} else {
		// keeps the statement terminating when the original select was (Go's missing-return analysis)
		pn := &ast.ExprStmt{X: &ast.CallExpr{Fun: ast.NewIdent("panic"), Args: []ast.Expr{&ast.BasicLit{Kind: token.STRING, Value: strconv.Quote("vsync: select returned an impossible index")}}}}
		sw.Body.List = append(sw.Body.List, &ast.CaseClause{List: nil, Body: []ast.Stmt{pn}})
	}
	sw.Tag = r.vsx("Select", append([]ast.Expr{ast.NewIdent(hd)}, cases...)...)
	return &ast.BlockStmt{List: append(pre, sw)}
}

func (r *rw) list(in []ast.Stmt) []ast.Stmt {
	var out []ast.Stmt
	for _, s := range in {
		out = append(out, r.stmt(s)...)
	}
	return out
}

var timeRedirect map[string]bool
var finePkgs = map[string]bool{}

func rewriteFile(src, dst string, sched bool) (bool, error) {
	data, err := os.ReadFile(src)
	if err != nil {
		return false, err
	}
	fset := token.NewFileSet()
	f, err := parser.ParseFile(fset, src, data, parser.ParseComments)
	if err != nil {
		return false, err
	}
	// keep build constraints
	var header []string
	for _, cg := range f.Comments {
		if cg.Pos() >= f.Package {
			break
		}
		for _, c := range cg.List {
			if strings.HasPrefix(c.Text, "//go:build") || strings.HasPrefix(c.Text, "// +build") {
				header = append(header, c.Text)
			}
		}
	}
	r := &rw{fset: fset, done: map[ast.Node]bool{}}
	changed := false
	// clock redirect
	usedVtime := false
	if timeRedirect[src] {
		ast.Inspect(f, func(n ast.Node) bool {
			if se, ok := n.(*ast.SelectorExpr); ok {
				if id, ok := se.X.(*ast.Ident); ok && id.Name == "time" && id.Obj == nil {
					switch se.Sel.Name {
					case "Now", "Since", "Sleep":
						id.Name = "vtime__"
						usedVtime = true
					}
				}
			}
			return true
		})
		if usedVtime {
			changed = true
			spec := &ast.ImportSpec{Name: ast.NewIdent("vtime__"), Path: &ast.BasicLit{Kind: token.STRING, Value: strconv.Quote(vtimePath)}}
			f.Decls = append([]ast.Decl{&ast.GenDecl{Tok: token.IMPORT, Specs: []ast.Spec{spec}}}, f.Decls...)
			// keep the original "time" import used
			keep := &ast.GenDecl{Tok: token.VAR, Specs: []ast.Spec{&ast.ValueSpec{Names: []*ast.Ident{ast.NewIdent("_")}, Values: []ast.Expr{&ast.SelectorExpr{X: ast.NewIdent("time"), Sel: ast.NewIdent("Now")}}}}}
			f.Decls = append(f.Decls, keep)
		}
	}
	// imports
	for _, im := range f.Imports {
		p, _ := strconv.Unquote(im.Path.Value)
		if !sched {
			break
		}
		switch p {
		case "sync":
			if im.Name != nil && im.Name.Name != "sync" {
				return false, fmt.Errorf("renamed sync import not supported")
			}
			im.Path.Value = strconv.Quote(vsyncPath)
			im.Name = ast.NewIdent("sync")
			changed = true
		case "go.uber.org/atomic":
			if im.Name != nil && im.Name.Name != "atomic" {
				return false, fmt.Errorf("renamed atomic import not supported")
			}
			im.Path.Value = strconv.Quote(vatomicPath)
			im.Name = ast.NewIdent("atomic")
			changed = true
		}
	}
	if sched && finePkgs[filepath.Dir(src)] {
		// statement-level points (fine mode): only inside function bodies
		for _, d := range f.Decls {
			fd, ok := d.(*ast.FuncDecl)
			if !ok || fd.Body == nil {
				continue
			}
			clauseBody := map[*ast.BlockStmt]bool{}
			ast.Inspect(fd.Body, func(n ast.Node) bool {
				switch x := n.(type) {
				case *ast.SelectStmt:
					clauseBody[x.Body] = true
				case *ast.SwitchStmt:
					clauseBody[x.Body] = true
				case *ast.TypeSwitchStmt:
					clauseBody[x.Body] = true
				}
				return true
			})
			ast.Inspect(fd.Body, func(n ast.Node) bool {
				addFine := func(in []ast.Stmt) []ast.Stmt {
					var out []ast.Stmt
					for _, st := range in {
						switch st.(type) {
						case *ast.DeclStmt, *ast.EmptyStmt, *ast.LabeledStmt:
						default:
							fs := &ast.ExprStmt{X: r.vsx("Fine")}
							r.done[fs] = true
							out = append(out, fs)
						}
						out = append(out, st)
					}
					return out
				}
				switch x := n.(type) {
				case *ast.BlockStmt:
					if !clauseBody[x] {
						x.List = addFine(x.List)
					}
				case *ast.CaseClause:
					x.Body = addFine(x.Body)
				case *ast.CommClause:
					x.Body = addFine(x.Body)
				}
				return true
			})
		}
	}
	if sched {
		ast.Inspect(f, func(n ast.Node) bool {
			switch x := n.(type) {
			case *ast.BlockStmt:
				x.List = r.list(x.List)
			case *ast.CaseClause:
				x.Body = r.list(x.Body)
			case *ast.CommClause:
				x.Body = r.list(x.Body)
			}
			return true
		})
	}
	// verification: nothing concurrency-relevant may be left unrewritten
	if sched {
		ast.Inspect(f, func(n ast.Node) bool {
			switch x := n.(type) {
			case *ast.GoStmt:
				r.errs = append(r.errs, fmt.Sprintf("%s: go statement in unsupported position", fset.Position(x.Pos())))
			case *ast.SelectStmt:
				r.errs = append(r.errs, fmt.Sprintf("%s: select in unsupported position", fset.Position(x.Pos())))
			case *ast.SendStmt:
				if !r.done[x] {
					r.errs = append(r.errs, fmt.Sprintf("%s: send in unsupported position", fset.Position(x.Pos())))
				}
			case *ast.UnaryExpr:
				if x.Op == token.ARROW && !r.done[x] {
					r.errs = append(r.errs, fmt.Sprintf("%s: receive in unsupported position", fset.Position(x.Pos())))
				}
			case *ast.CallExpr:
				if id, ok := x.Fun.(*ast.Ident); ok && id.Name == "close" && len(x.Args) == 1 {
					r.errs = append(r.errs, fmt.Sprintf("%s: close() in unsupported position", fset.Position(x.Pos())))
				}
			}
			return true
		})
	}
	if len(r.errs) > 0 {
		return false, fmt.Errorf("%s", strings.Join(r.errs, "; "))
	}
	if r.usedVsx {
		changed = true
		spec := &ast.ImportSpec{Name: ast.NewIdent("vsx__"), Path: &ast.BasicLit{Kind: token.STRING, Value: strconv.Quote(vsyncPath)}}
		gd := &ast.GenDecl{Tok: token.IMPORT, Specs: []ast.Spec{spec}}
		f.Decls = append([]ast.Decl{gd}, f.Decls...)
	}
	if !changed {
		return false, nil
	}
	f.Comments = nil
	stripDocs(f)
	var buf bytes.Buffer
	for _, h := range header {
		buf.WriteString(h + "\n")
	}
	if len(header) > 0 {
		buf.WriteString("\n")
	}
	if err := format.Node(&buf, fset, f); err != nil {
		return false, err
	}
	if err := os.MkdirAll(filepath.Dir(dst), 0o755); err != nil {
		return false, err
	}
	return true, os.WriteFile(dst, buf.Bytes(), 0o644)
}

func stripDocs(f *ast.File) {
	f.Doc = nil
	ast.Inspect(f, func(n ast.Node) bool {
		switch x := n.(type) {
		case *ast.GenDecl:
			x.Doc = nil
		case *ast.FuncDecl:
			x.Doc = nil
		case *ast.Field:
			x.Doc, x.Comment = nil, nil
		case *ast.ValueSpec:
			x.Doc, x.Comment = nil, nil
		case *ast.TypeSpec:
			x.Doc, x.Comment = nil, nil
		case *ast.ImportSpec:
			x.Doc, x.Comment = nil, nil
		}
		return true
	})
}
