module verifinstr

go 1.21
