// Package vatomic stands in for go.uber.org/atomic in rewritten neptune packages: the same types,
// with a schedule point in front of every operation.
package vatomic

import (
	"github.com/pinealctx/neptune/zverif/vsync"
	uatomic "go.uber.org/atomic"
)

// Int32 mirrors atomic.Int32.
type Int32 struct {
	v  uatomic.Int32
	hh uint64
}

// NewInt32 mirrors atomic.NewInt32.
func NewInt32(i int32) *Int32 { x := &Int32{}; x.v.Store(i); return x }

func (i *Int32) Load() int32         { vsync.AtomicPointOn(&i.hh); return i.v.Load() }
func (i *Int32) Store(v int32)       { vsync.AtomicPointOn(&i.hh); i.v.Store(v) }
func (i *Int32) Inc() int32          { vsync.AtomicPointOn(&i.hh); return i.v.Inc() }
func (i *Int32) Dec() int32          { vsync.AtomicPointOn(&i.hh); return i.v.Dec() }
func (i *Int32) Add(d int32) int32   { vsync.AtomicPointOn(&i.hh); return i.v.Add(d) }
func (i *Int32) Sub(d int32) int32   { vsync.AtomicPointOn(&i.hh); return i.v.Sub(d) }
func (i *Int32) Swap(v int32) int32  { vsync.AtomicPointOn(&i.hh); return i.v.Swap(v) }
func (i *Int32) CAS(o, n int32) bool { vsync.AtomicPointOn(&i.hh); return i.v.CompareAndSwap(o, n) }
func (i *Int32) CompareAndSwap(o, n int32) bool {
	vsync.AtomicPointOn(&i.hh)
	return i.v.CompareAndSwap(o, n)
}

// Raw reads without a schedule point (inspection only).
func (i *Int32) Raw() int32 { return i.v.Load() }

// Int64 mirrors atomic.Int64.
type Int64 struct {
	v  uatomic.Int64
	hh uint64
}

func (i *Int64) Load() int64       { vsync.AtomicPointOn(&i.hh); return i.v.Load() }
func (i *Int64) Store(v int64)     { vsync.AtomicPointOn(&i.hh); i.v.Store(v) }
func (i *Int64) Inc() int64        { vsync.AtomicPointOn(&i.hh); return i.v.Inc() }
func (i *Int64) Dec() int64        { vsync.AtomicPointOn(&i.hh); return i.v.Dec() }
func (i *Int64) Add(d int64) int64 { vsync.AtomicPointOn(&i.hh); return i.v.Add(d) }

// Bool mirrors atomic.Bool.
type Bool struct {
	v  uatomic.Bool
	hh uint64
}

func (b *Bool) Load() bool         { vsync.AtomicPointOn(&b.hh); return b.v.Load() }
func (b *Bool) Store(v bool)       { vsync.AtomicPointOn(&b.hh); b.v.Store(v) }
func (b *Bool) CAS(o, n bool) bool { vsync.AtomicPointOn(&b.hh); return b.v.CompareAndSwap(o, n) }

// String mirrors atomic.String.  It is passed by value in stcp, so it holds a pointer-free copyable
// representation exactly like the original (which wraps atomic.Value).
type String struct {
	v  uatomic.String
	hh uint64
}

func (s *String) Load() string   { vsync.AtomicPointOn(&s.hh); return s.v.Load() }
func (s *String) Store(v string) { vsync.AtomicPointOn(&s.hh); s.v.Store(v) }

// Value mirrors atomic.Value.
type Value struct {
	v  uatomic.Value
	hh uint64
}

func (x *Value) Load() interface{}   { vsync.AtomicPoint(); return x.v.Load() }
func (x *Value) Store(v interface{}) { vsync.AtomicPointOn(&x.hh); x.v.Store(v) }
