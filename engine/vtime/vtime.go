// Package vtime is the clock seam injected (go build -overlay) in place of time.Now/Since/Sleep in the
// few neptune files that read the clock directly (idgen/snowflake/mono.go, idgen/nano, vcode).
package vtime

import "time"

// NowFn, when set, supplies every clock reading.
var NowFn func() time.Time

// SleepFn, when set, replaces time.Sleep.
var SleepFn func(d time.Duration)

// Now mirrors time.Now.
func Now() time.Time {
	if NowFn != nil {
		return NowFn()
	}
	return time.Now()
}

// Since mirrors time.Since.
func Since(t time.Time) time.Duration { return Now().Sub(t) }

// Sleep mirrors time.Sleep.
func Sleep(d time.Duration) {
	if SleepFn != nil {
		SleepFn(d)
		return
	}
	time.Sleep(d)
}
