// Package vsync is the controlled-scheduler shim that replaces "sync", channel operations, select
// and go statements in the neptune packages under test (injected with go build -overlay as the
// virtual package github.com/pinealctx/neptune/zverif/vsync; it does not exist in /repo).
//
// Exactly one logical thread runs at a time.  A thread runs from one schedule point to the next; at
// a point it announces the operation it is about to perform and the decision procedure (run by the
// arriving thread itself, all other threads being parked) picks the next thread among those whose
// announced operation is enabled.  The choice comes from the explorer's prefix, or is choice 0.
package vsync

import (
	"fmt"
	"reflect"
	"runtime"
	"runtime/debug"
	"sync"
)

// OpKind names a schedule point kind.
type OpKind uint8

// Operation kinds.
const (
	OpStart OpKind = iota
	OpYield
	OpLock
	OpRLock
	OpWLock1
	OpWLock2
	OpCondWait
	OpWGWait
	OpOnce
	OpRecv
	OpSend
	OpSelect
	OpAtomic
	OpBlockOn // harness-defined blocking predicate
	OpRelease // only with Paranoid
	OpFine    // statement-level point (only in fine mode)
)

var kindNames = [...]string{"start", "yield", "lock", "rlock", "wlock1", "wlock2", "condwait", "wgwait", "once", "recv", "send", "select", "atomic", "blockon", "release", "stmt"}

func (k OpKind) String() string { return kindNames[k] }

type op struct {
	kind  OpKind
	obj   interface{} // *Mutex, *RWMutex, *Cond, *WaitGroup, *Once, channel (as interface), []Case, func() bool
	cases []Case
	dflt  bool
	pred  func() bool
}

// Thread is a logical thread.
type Thread struct {
	ID      int
	Name    string
	gate    chan struct{}
	exited  chan struct{}
	op      op
	state   uint8  // 0 parked at op, 1 running, 2 finished
	granted bool   // cond signalled / rlock pre-admitted
	Lib     bool   // started by library code through Go()
	nops    uint64 // operations performed so far (its position)
	th      uint64 // hash of its own operation history
}

const (
	stParked uint8 = iota
	stRunning
	stFinished
)

// Status is the terminal status of an execution.
type Status int

// Terminal statuses.
const (
	Done Status = iota
	Deadlock
	Horizon
	Panicked
	Failed // oracle failure raised through Fail()
	Pruned // the explorer recognised an already explored state and stopped the execution
)

func (s Status) String() string {
	return [...]string{"done", "deadlock", "horizon", "panic", "failed", "pruned"}[s]
}

// Point is one recorded decision with more than one alternative.
type Point struct {
	N       int  // number of alternatives
	Chosen  int  // index taken
	Data    bool // data choice (Choose / select case) rather than thread choice
	Preempt bool // a non-zero thread choice here switches away from a still-enabled running thread
	Free    bool // non-zero choices cost nothing (select among ready cases)
}

// Sched is one execution.
type Sched struct {
	threads   []*Thread
	cur       *Thread
	prefix    []int
	Points    []Point
	Steps     int
	Horizon   int
	Status    Status
	PanicVal  interface{}
	PanicStk  string
	FailMsg   string
	Blocked   bool // some thread was at some decision disabled
	Trace     uint64
	done      chan struct{}
	finished  bool
	aborting  bool
	inspect   bool
	epoch     uint32
	nobj      int
	closed    map[uintptr]bool
	Invariant func() error
	Paranoid  bool
	// FineMode turns the statement-level points the rewriter inserted into the library code into real
	// schedule points, so that interleavings INSIDE unprotected or wrongly protected code are explored
	// (lock misuse, narrowed critical sections).  The state cache must be off in this mode: it assumes
	// data-race freedom.
	FineMode bool
	// Nondet is set when a replayed prefix asks for a choice that does not exist.
	Nondet  string
	enbuf   []*Thread
	Log     []string
	KeepLog bool
	// Key is the happens-before fingerprint of the execution so far: the sum over all synchronisation
	// objects of a hash of the sequence of (thread, position) operations performed on it, plus every
	// thread's own history hash.  Two prefixes with the same fingerprint are Mazurkiewicz-equivalent
	// (same per-object operation orders), hence reach the same state of a data-race-free program.
	Key   uint64
	chanH map[uintptr]*uint64
	// Visit, if set, is asked at every scheduling decision beyond the replayed prefix whether the state
	// (fingerprint incl. running thread) was explored before; true ends the execution as Pruned.
	Visit func(s *Sched, key uint64) bool
}

var (
	active   *Sched
	epochCtr uint32
)

// Active returns the running execution or nil.
func Active() *Sched { return active }

type busyT struct{}

// ErrBusy is the panic value raised by an inspection that meets a held lock.
var ErrBusy = busyT{}

// NewSched prepares an execution.
func NewSched(prefix []int, horizon int) *Sched {
	epochCtr++
	return &Sched{prefix: prefix, Horizon: horizon, done: make(chan struct{}), epoch: epochCtr, closed: map[uintptr]bool{}, chanH: map[uintptr]*uint64{}}
}

// Spawn adds a harness thread (before Run, or from a running thread).
func (s *Sched) Spawn(name string, f func()) *Thread {
	return s.spawn(name, f, false)
}

func (s *Sched) spawn(name string, f func(), lib bool) *Thread {
	t := &Thread{ID: len(s.threads), Name: name, gate: make(chan struct{}, 1), exited: make(chan struct{}), Lib: lib}
	t.op = op{kind: OpStart}
	s.threads = append(s.threads, t)
	if s.cur != nil && s.cur.state == stRunning {
		s.hop(nil, 0x6000+uint64(t.ID))
	}
	go func() {
		defer close(t.exited)
		<-t.gate
		if s.aborting {
			return
		}
		t.state = stRunning
		s.note(t)
		defer func() {
			if s.aborting {
				return
			}
			if r := recover(); r != nil {
				s.PanicVal = r
				s.PanicStk = string(debug.Stack())
				s.finish(Panicked)
				return
			}
			s.threadExit(t)
		}()
		f()
	}()
	return t
}

// Run starts the execution and blocks until it is over, then tears all threads down.
func (s *Sched) Run() {
	active = s
	next := s.decide()
	if next == nil {
		s.finish(Done)
	} else {
		s.cur = next
		next.gate <- struct{}{}
	}
	<-s.done
	s.aborting = true
	for _, t := range s.threads {
		if t.state != stFinished {
			select {
			case t.gate <- struct{}{}:
			default:
			}
		}
		<-t.exited
	}
	active = nil
}

func (s *Sched) finish(st Status) {
	if s.finished {
		return
	}
	s.finished = true
	s.Status = st
	close(s.done)
}

// Fail ends the execution with an oracle failure (callable from thread bodies and invariants).
func (s *Sched) Fail(msg string) {
	if s.finished {
		return
	}
	s.FailMsg = msg
	s.finish(Failed)
	if s.cur != nil && s.cur.state == stRunning {
		s.parkForever()
	}
}

func (s *Sched) parkForever() {
	t := s.cur
	<-t.gate
	runtime.Goexit()
}

func (s *Sched) threadExit(t *Thread) {
	t.state = stFinished
	if s.finished {
		return
	}
	next := s.decide()
	if s.finished {
		return
	}
	if next == nil {
		for _, o := range s.threads {
			if o.state != stFinished {
				s.finish(Deadlock)
				return
			}
		}
		s.finish(Done)
		return
	}
	s.cur = next
	next.gate <- struct{}{}
}

func mix(a, b, c uint64) uint64 {
	h := a*0x9E3779B97F4A7C15 ^ (b+0x7F4A7C15)*0xC2B2AE3D27D4EB4F ^ (c+0x165667B1)*0x165667B19E3779F9
	h ^= h >> 29
	h *= 0xBF58476D1CE4E5B9
	h ^= h >> 32
	return h
}

// hop records one operation of the running thread on the object whose history hash is *ph (nil: an
// operation on no shared object); v is folded into the thread's own history (kind, chosen value…).
func (s *Sched) hop(ph *uint64, v uint64) {
	t := s.cur
	if t == nil {
		return
	}
	t.nops++
	oldT := mix(uint64(t.ID)+1, t.th, 0x51)
	t.th = mix(t.th, v, t.nops)
	s.Key += mix(uint64(t.ID)+1, t.th, 0x51) - oldT
	if ph != nil {
		old := *ph
		*ph = mix(old, uint64(t.ID)+1, t.nops)
		s.Key += *ph - old
	}
}

func (s *Sched) chanHash(c interface{}) *uint64 {
	p, _, _, isNil := chanInfo(c)
	if isNil {
		return nil
	}
	h := s.chanH[p]
	if h == nil {
		h = new(uint64)
		s.chanH[p] = h
	}
	return h
}

// Touch records an access of the running thread to a piece of shared state that is not protected by
// any shim object (harness bookkeeping): the order of touches of one object is part of the fingerprint.
func Touch(ph *uint64) {
	s := active
	if s == nil || s.aborting || s.inspect {
		return
	}
	s.hop(ph, 0x77)
}

func (s *Sched) note(t *Thread) {
	// trace hash: FNV-1a over (thread, kind)
	h := s.Trace
	if h == 0 {
		h = 1469598103934665603
	}
	h ^= uint64(t.ID)<<8 | uint64(t.op.kind)
	h *= 1099511628211
	s.Trace = h
	if s.KeepLog {
		s.Log = append(s.Log, fmt.Sprintf("T%d(%s) %s", t.ID, t.Name, t.op.kind))
	}
	o := &t.op
	switch o.kind {
	case OpLock:
		s.hop(&o.obj.(*Mutex).hh, uint64(o.kind))
	case OpRLock, OpWLock1, OpWLock2:
		s.hop(&o.obj.(*RWMutex).hh, uint64(o.kind))
	case OpCondWait:
		s.hop(&o.obj.(*Cond).hh, uint64(o.kind))
	case OpWGWait:
		s.hop(&o.obj.(*WaitGroup).hh, uint64(o.kind))
	case OpOnce:
		s.hop(&o.obj.(*Once).hh, uint64(o.kind))
	case OpRecv, OpSend:
		s.hop(s.chanHash(o.obj), uint64(o.kind))
	case OpSelect:
		for i := range o.cases {
			s.hop(s.chanHash(o.cases[i].Ch), uint64(o.kind))
		}
		if len(o.cases) == 0 {
			s.hop(nil, uint64(o.kind))
		}
	case OpAtomic:
		if ph, ok := o.obj.(*uint64); ok {
			s.hop(ph, uint64(o.kind))
		} else {
			s.hop(nil, uint64(o.kind))
		}
	default:
		s.hop(nil, uint64(o.kind))
	}
}

// NoteValue mixes an observation into the trace hash (results of calls, chosen select case…).
func (s *Sched) NoteValue(v uint64) {
	h := s.Trace ^ v
	h *= 1099511628211
	s.Trace = h
}

func (s *Sched) choice(n int, data, preempt, free bool) int {
	i := len(s.Points)
	c := 0
	if i < len(s.prefix) {
		c = s.prefix[i]
		if c >= n || c < 0 {
			s.Nondet = fmt.Sprintf("point %d: prefix asks for alternative %d of %d", i, c, n)
			c = 0
		}
	}
	s.Points = append(s.Points, Point{N: n, Chosen: c, Data: data, Preempt: preempt, Free: free})
	return c
}

// decide picks the next thread to run; nil if none is enabled.
func (s *Sched) decide() *Thread {
	if s.Invariant != nil && !s.finished {
		s.inspect = true
		err := s.runInvariant()
		s.inspect = false
		if err != nil {
			s.FailMsg = err.Error()
			s.finish(Failed)
			return nil
		}
	}
	if s.Visit != nil && !s.finished && len(s.Points) >= len(s.prefix) {
		k := s.Key
		if s.cur != nil {
			k ^= mix(uint64(s.cur.ID)+1, uint64(s.cur.state), 0x99)
		}
		if s.Visit(s, k) {
			s.finish(Pruned)
			return nil
		}
	}
	en := s.enbuf[:0]
	curEnabled := false
	if c := s.cur; c != nil && c.state == stParked && s.enabled(c) {
		en = append(en, c)
		curEnabled = true
	}
	for _, t := range s.threads {
		if t == s.cur || t.state != stParked {
			continue
		}
		if s.enabled(t) {
			en = append(en, t)
		} else {
			s.Blocked = true
		}
	}
	if s.cur != nil && s.cur.state == stParked && !curEnabled {
		s.Blocked = true
	}
	s.enbuf = en
	if len(en) == 0 {
		return nil
	}
	if len(en) == 1 {
		return en[0]
	}
	return en[s.choice(len(en), false, curEnabled, false)]
}

func (s *Sched) runInvariant() (err error) {
	defer func() {
		if r := recover(); r != nil {
			if r == ErrBusy {
				err = nil
				return
			}
			err = fmt.Errorf("invariant panicked: %v", r)
		}
	}()
	return s.Invariant()
}

// Inspect runs f in inspect mode (no schedule points; held lock => returns false).
func (s *Sched) Inspect(f func()) (ok bool) {
	old := s.inspect
	s.inspect = true
	defer func() {
		s.inspect = old
		if r := recover(); r != nil {
			if r == ErrBusy {
				ok = false
				return
			}
			panic(r)
		}
	}()
	f()
	return true
}

// point parks the current thread at o until the decision procedure schedules it.
func (s *Sched) point(o op) {
	t := s.cur
	if s.finished {
		// the execution is over (oracle failure / horizon raised elsewhere): park until torn down
		t.state = stParked
		s.parkForever()
	}
	t.op = o
	t.state = stParked
	s.Steps++
	if s.Steps > s.Horizon {
		s.finish(Horizon)
		s.parkForever()
	}
	next := s.decide()
	if s.finished {
		s.parkForever()
	}
	if next == nil {
		s.finish(Deadlock)
		s.parkForever()
	}
	if next != t {
		s.cur = next
		next.gate <- struct{}{}
		<-t.gate
		if s.aborting {
			runtime.Goexit()
		}
	}
	t.state = stRunning
	s.note(t)
}

// here returns the active execution if the caller must take schedule points.
func here() *Sched {
	s := active
	if s == nil || s.inspect {
		return nil
	}
	if s.aborting {
		runtime.Goexit()
	}
	return s
}

// ---------------------------------------------------------------------------------------------
// enabledness

func (s *Sched) enabled(t *Thread) bool {
	o := &t.op
	switch o.kind {
	case OpStart, OpYield, OpAtomic, OpRelease, OpFine:
		return true
	case OpLock:
		return !o.obj.(*Mutex).held
	case OpRLock:
		m := o.obj.(*RWMutex)
		return t.granted || m.writer == nil
	case OpWLock1:
		m := o.obj.(*RWMutex)
		return m.writer == nil
	case OpWLock2:
		m := o.obj.(*RWMutex)
		return m.readers == 0
	case OpCondWait:
		return t.granted
	case OpWGWait:
		return o.obj.(*WaitGroup).n == 0
	case OpOnce:
		return !o.obj.(*Once).running
	case OpRecv:
		return s.recvReady(o.obj)
	case OpSend:
		return s.sendReady(o.obj)
	case OpSelect:
		if o.dflt {
			return true
		}
		for i := range o.cases {
			if s.caseReady(&o.cases[i]) {
				return true
			}
		}
		return false
	case OpBlockOn:
		return o.pred()
	}
	panic("vsync: unknown op kind")
}

func chanInfo(c interface{}) (ptr uintptr, ln, cp int, isNil bool) {
	v := reflect.ValueOf(c)
	if !v.IsValid() || v.IsNil() {
		return 0, 0, 0, true
	}
	return v.Pointer(), v.Len(), v.Cap(), false
}

func (s *Sched) recvReady(c interface{}) bool {
	p, ln, _, isNil := chanInfo(c)
	if isNil {
		return false
	}
	return ln > 0 || s.closed[p]
}

func (s *Sched) sendReady(c interface{}) bool {
	p, ln, cp, isNil := chanInfo(c)
	if isNil {
		return false
	}
	if s.closed[p] {
		return true // the real send panics, as in Go
	}
	if cp == 0 {
		panic("vsync: send on an unbuffered channel is not supported by the scheduler model")
	}
	return ln < cp
}

func (s *Sched) caseReady(c *Case) bool {
	if c.Send {
		return s.sendReady(c.Ch)
	}
	return s.recvReady(c.Ch)
}

// ---------------------------------------------------------------------------------------------
// API used by rewritten code and by harnesses

// Go starts a logical thread (rewritten `go` statements).
func Go(f func()) {
	s := active
	if s == nil {
		go f()
		return
	}
	if s.aborting {
		return
	}
	s.spawn("lib", f, true)
}

// GoNamed starts a named harness thread from inside a running thread.
func GoNamed(name string, f func()) {
	s := active
	if s == nil {
		go f()
		return
	}
	s.spawn(name, f, false)
}

// Fine is the statement-level point inserted by the rewriter before every statement of the rewritten
// packages; it is a no-op unless the execution runs in fine mode.
func Fine() {
	s := active
	if s == nil || !s.FineMode || s.inspect {
		return
	}
	if s.aborting {
		runtime.Goexit()
	}
	s.point(op{kind: OpFine})
}

// Yield is an always-enabled schedule point.
func Yield() {
	if s := here(); s != nil {
		s.point(op{kind: OpYield})
	}
}

// BlockOn parks the calling thread until pred() holds (pred is evaluated only while every thread is
// parked; it must be side-effect free).
func BlockOn(pred func() bool) {
	if s := here(); s != nil {
		s.point(op{kind: OpBlockOn, pred: pred})
	}
}

// Choose is a data choice among n alternatives decided by the explorer (costs one deviation for a
// non-zero answer).
func Choose(n int) int {
	s := here()
	if s == nil || n <= 1 {
		return 0
	}
	c := s.choice(n, true, false, false)
	s.NoteValue(uint64(c) + 77)
	s.hop(nil, uint64(c)+0x4000)
	return c
}

// ChooseFree is a data choice that costs nothing (used to enumerate the letters of a driver program).
func ChooseFree(n int) int {
	s := here()
	if s == nil || n <= 1 {
		return 0
	}
	c := s.choice(n, true, false, true)
	s.NoteValue(uint64(c) + 99)
	s.hop(nil, uint64(c)+0x7000)
	return c
}

// BeforeRecv is the schedule point in front of a channel receive.
func BeforeRecv(c interface{}) {
	if s := here(); s != nil {
		s.point(op{kind: OpRecv, obj: c})
	}
}

// BeforeSend is the schedule point in front of a channel send.
func BeforeSend(c interface{}) {
	if s := here(); s != nil {
		s.point(op{kind: OpSend, obj: c})
	}
}

// Close closes a channel and records that it is closed.
func Close(c interface{}) {
	s := active
	if s != nil && s.aborting {
		return
	}
	v := reflect.ValueOf(c)
	if s != nil && v.IsValid() && !v.IsNil() {
		if s.Paranoid && !s.inspect {
			s.point(op{kind: OpRelease})
		}
		s.closed[v.Pointer()] = true
		if !s.inspect {
			s.hop(s.chanHash(c), 0x38)
		}
	}
	v.Close()
}

// IsClosed reports whether the scheduler has seen c closed.
func IsClosed(c interface{}) bool {
	s := active
	if s == nil {
		return false
	}
	p, _, _, isNil := chanInfo(c)
	return !isNil && s.closed[p]
}

// Case is one communication clause of a select.
type Case struct {
	Ch   interface{}
	Send bool
}

// R makes a receive case.
func R(c interface{}) Case { return Case{Ch: c} }

// S makes a send case.
func S(c interface{}) Case { return Case{Ch: c, Send: true} }

// Select parks until a case is ready (or takes default) and returns the index of the case the
// explorer chose among the ready ones; -1 means default.
func Select(hasDefault bool, cases ...Case) int {
	s := here()
	if s == nil {
		panic("vsync.Select outside a controlled execution")
	}
	s.point(op{kind: OpSelect, cases: cases, dflt: hasDefault})
	var ready [8]int
	rd := ready[:0]
	for i := range cases {
		if s.caseReady(&cases[i]) {
			rd = append(rd, i)
		}
	}
	if len(rd) == 0 {
		if !hasDefault {
			panic("vsync: select scheduled with no ready case")
		}
		return -1
	}
	if len(rd) == 1 {
		return rd[0]
	}
	c := rd[s.choice(len(rd), true, false, true)]
	s.NoteValue(uint64(c) + 1000)
	s.hop(nil, uint64(c)+0x5000)
	return c
}

// ---------------------------------------------------------------------------------------------
// sync types

// Locker mirrors sync.Locker.
type Locker interface {
	Lock()
	Unlock()
}

// Pool and Map are passed through.
type (
	Pool = sync.Pool
	Map  = sync.Map
)

// Mutex mirrors sync.Mutex.
type Mutex struct {
	real  sync.Mutex
	held  bool
	ep    uint32
	Owner int
	hh    uint64
}

func (m *Mutex) fresh(s *Sched) {
	if m.ep != s.epoch {
		m.ep = s.epoch
		m.held = false
		m.hh = 0
	}
}

// Lock locks m.
func (m *Mutex) Lock() {
	s := active
	if s == nil {
		m.real.Lock()
		return
	}
	if s.aborting {
		if s.inspect {
			return
		}
		runtime.Goexit()
	}
	m.fresh(s)
	if s.inspect {
		if m.held {
			panic(ErrBusy)
		}
		return
	}
	s.point(op{kind: OpLock, obj: m})
	m.held = true
	m.Owner = s.cur.ID
}

// TryLock tries to lock m.
func (m *Mutex) TryLock() bool {
	s := active
	if s == nil {
		return m.real.TryLock()
	}
	m.fresh(s)
	if s.inspect {
		return !m.held
	}
	if s.aborting {
		return false
	}
	s.point(op{kind: OpYield})
	if m.held {
		return false
	}
	m.held = true
	m.Owner = s.cur.ID
	return true
}

// Unlock unlocks m.
func (m *Mutex) Unlock() {
	s := active
	if s == nil {
		m.real.Unlock()
		return
	}
	if s.aborting || s.inspect {
		return
	}
	m.fresh(s)
	if !m.held {
		panic("sync: unlock of unlocked mutex")
	}
	if s.Paranoid {
		s.point(op{kind: OpRelease})
	}
	m.held = false
	s.hop(&m.hh, 0x31)
}

// Held reports whether m is held (inspection only).
func (m *Mutex) Held() bool {
	if s := active; s != nil {
		m.fresh(s)
	}
	return m.held
}

// RWMutex mirrors sync.RWMutex including writer preference: a pending writer blocks new readers, and
// readers blocked behind a writer are admitted together when it unlocks.
type RWMutex struct {
	real    sync.RWMutex
	readers int
	writer  *Thread // pending or holding
	wheld   bool
	ep      uint32
	hh      uint64
}

func (m *RWMutex) fresh(s *Sched) {
	if m.ep != s.epoch {
		m.ep = s.epoch
		m.readers, m.writer, m.wheld = 0, nil, false
		m.hh = 0
	}
}

// RLock read-locks m.
func (m *RWMutex) RLock() {
	s := active
	if s == nil {
		m.real.RLock()
		return
	}
	if s.aborting {
		if s.inspect {
			return
		}
		runtime.Goexit()
	}
	m.fresh(s)
	if s.inspect {
		if m.writer != nil {
			panic(ErrBusy)
		}
		return
	}
	s.point(op{kind: OpRLock, obj: m})
	t := s.cur
	if t.granted {
		t.granted = false // pre-admitted by the unlocking writer; already counted
	} else {
		m.readers++
	}
}

// RUnlock read-unlocks m.
func (m *RWMutex) RUnlock() {
	s := active
	if s == nil {
		m.real.RUnlock()
		return
	}
	if s.aborting || s.inspect {
		return
	}
	m.fresh(s)
	if m.readers <= 0 {
		panic("sync: RUnlock of unlocked RWMutex")
	}
	if s.Paranoid {
		s.point(op{kind: OpRelease})
	}
	m.readers--
	s.hop(&m.hh, 0x32)
}

// Lock write-locks m.
func (m *RWMutex) Lock() {
	s := active
	if s == nil {
		m.real.Lock()
		return
	}
	if s.aborting {
		if s.inspect {
			return
		}
		runtime.Goexit()
	}
	m.fresh(s)
	if s.inspect {
		if m.writer != nil || m.readers > 0 {
			panic(ErrBusy)
		}
		return
	}
	s.point(op{kind: OpWLock1, obj: m})
	m.writer = s.cur
	if m.readers > 0 {
		s.point(op{kind: OpWLock2, obj: m})
	}
	m.wheld = true
}

// Unlock write-unlocks m.
func (m *RWMutex) Unlock() {
	s := active
	if s == nil {
		m.real.Unlock()
		return
	}
	if s.aborting || s.inspect {
		return
	}
	m.fresh(s)
	if !m.wheld {
		panic("sync: Unlock of unlocked RWMutex")
	}
	if s.Paranoid {
		s.point(op{kind: OpRelease})
	}
	m.wheld = false
	m.writer = nil
	s.hop(&m.hh, 0x33)
	// readers blocked behind this writer are admitted before any later writer (Go's RWMutex.Unlock)
	for _, t := range s.threads {
		if t.state == stParked && t.op.kind == OpRLock && t.op.obj == interface{}(m) && !t.granted {
			t.granted = true
			m.readers++
		}
	}
}

// RLocker mirrors sync.RWMutex.RLocker.
func (m *RWMutex) RLocker() Locker { return (*rlocker)(m) }

type rlocker RWMutex

func (r *rlocker) Lock()   { (*RWMutex)(r).RLock() }
func (r *rlocker) Unlock() { (*RWMutex)(r).RUnlock() }

// State returns (readers, writer pending-or-held) for inspection.
func (m *RWMutex) State() (readers int, writer bool) {
	if s := active; s != nil {
		m.fresh(s)
	}
	return m.readers, m.writer != nil
}

// Cond mirrors sync.Cond (FIFO Signal).
type Cond struct {
	L       Locker
	real    *sync.Cond
	rmu     sync.Mutex
	waiters []*Thread
	ep      uint32
	hh      uint64
}

// NewCond mirrors sync.NewCond.
func NewCond(l Locker) *Cond { return &Cond{L: l} }

func (c *Cond) fresh(s *Sched) {
	if c.ep != s.epoch {
		c.ep = s.epoch
		c.waiters = nil
		c.hh = 0
	}
}

func (c *Cond) realCond() *sync.Cond {
	c.rmu.Lock()
	defer c.rmu.Unlock()
	if c.real == nil {
		c.real = sync.NewCond(c.L)
	}
	return c.real
}

// Wait mirrors sync.Cond.Wait.
func (c *Cond) Wait() {
	s := active
	if s == nil {
		c.realCond().Wait()
		return
	}
	if s.aborting {
		runtime.Goexit()
	}
	if s.inspect {
		panic("vsync: Cond.Wait during inspection")
	}
	c.fresh(s)
	t := s.cur
	t.granted = false
	c.waiters = append(c.waiters, t)
	s.hop(&c.hh, 0x34)
	c.L.Unlock()
	s.point(op{kind: OpCondWait, obj: c})
	t.granted = false
	c.L.Lock()
}

// Signal wakes the longest-waiting thread.
func (c *Cond) Signal() {
	s := active
	if s == nil {
		c.realCond().Signal()
		return
	}
	if s.aborting || s.inspect {
		return
	}
	c.fresh(s)
	s.hop(&c.hh, 0x35)
	if len(c.waiters) > 0 {
		c.waiters[0].granted = true
		c.waiters = c.waiters[1:]
	}
}

// Broadcast wakes all waiting threads.
func (c *Cond) Broadcast() {
	s := active
	if s == nil {
		c.realCond().Broadcast()
		return
	}
	if s.aborting || s.inspect {
		return
	}
	c.fresh(s)
	s.hop(&c.hh, 0x36)
	for _, t := range c.waiters {
		t.granted = true
	}
	c.waiters = nil
}

// NWaiters is the number of threads parked in Wait and not yet signalled (inspection).
func (c *Cond) NWaiters() int {
	if s := active; s != nil {
		c.fresh(s)
	}
	return len(c.waiters)
}

// WaitGroup mirrors sync.WaitGroup.
type WaitGroup struct {
	real sync.WaitGroup
	n    int
	ep   uint32
	hh   uint64
}

func (w *WaitGroup) fresh(s *Sched) {
	if w.ep != s.epoch {
		w.ep = s.epoch
		w.n = 0
		w.hh = 0
	}
}

// Add mirrors sync.WaitGroup.Add.
func (w *WaitGroup) Add(d int) {
	s := active
	if s == nil {
		w.real.Add(d)
		return
	}
	if s.aborting {
		return
	}
	w.fresh(s)
	w.n += d
	if !s.inspect {
		s.hop(&w.hh, 0x37+uint64(int64(d)))
	}
	if w.n < 0 {
		panic("sync: negative WaitGroup counter")
	}
}

// Done mirrors sync.WaitGroup.Done.
func (w *WaitGroup) Done() { w.Add(-1) }

// Wait mirrors sync.WaitGroup.Wait.
func (w *WaitGroup) Wait() {
	s := active
	if s == nil {
		w.real.Wait()
		return
	}
	if s.aborting {
		if s.inspect {
			return
		}
		runtime.Goexit()
	}
	w.fresh(s)
	s.point(op{kind: OpWGWait, obj: w})
}

// Once mirrors sync.Once.
type Once struct {
	real    sync.Once
	done    bool
	running bool
	ep      uint32
	hh      uint64
}

// Do mirrors sync.Once.Do.
func (o *Once) Do(f func()) {
	s := active
	if s == nil {
		o.real.Do(f)
		return
	}
	if s.aborting {
		return
	}
	if o.ep != s.epoch {
		o.ep = s.epoch
		o.done, o.running = false, false
		o.hh = 0
	}
	if s.inspect {
		panic("vsync: Once.Do during inspection")
	}
	s.point(op{kind: OpOnce, obj: o})
	if o.done {
		return
	}
	o.running = true
	defer func() {
		o.running = false
		o.done = true
	}()
	f()
}

// AtomicPoint is the schedule point in front of an atomic operation (used by the vatomic shim).
func AtomicPoint() {
	if s := here(); s != nil {
		s.point(op{kind: OpAtomic})
	}
}

// AtomicPointOn is AtomicPoint for an atomic whose history hash lives in *ph.
func AtomicPointOn(ph *uint64) {
	if s := here(); s != nil {
		s.point(op{kind: OpAtomic, obj: ph})
	}
}

// ParkedInfo describes the threads that were still parked when the execution ended.
func (s *Sched) ParkedInfo() []string {
	var out []string
	for _, t := range s.threads {
		if t.state != stFinished {
			out = append(out, fmt.Sprintf("T%d(%s)@%s", t.ID, t.Name, t.op.kind))
		}
	}
	return out
}

// Threads returns the logical threads.
func (s *Sched) Threads() []*Thread { return s.threads }

// Finished reports whether t ran to completion.
func (t *Thread) Finished() bool { return t.state == stFinished }

// OpKindNow returns the kind of the operation t is parked at.
func (t *Thread) OpKindNow() OpKind { return t.op.kind }

// ParkedAt reports whether t is parked (not running, not finished) at an op of kind k.
func (t *Thread) ParkedAt(k OpKind) bool { return t.state == stParked && t.op.kind == k }

// IsBlocked reports whether t is parked at a currently disabled operation.
func (s *Sched) IsBlocked(t *Thread) bool { return t.state == stParked && !s.enabled(t) }

// Cur returns the running thread.
func (s *Sched) Cur() *Thread { return s.cur }
