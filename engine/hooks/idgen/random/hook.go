//go:build verif

package random

// VerifGenNonceStr runs the nonce generator with a caller-supplied index source.
func VerifGenNonceStr(baseStr string, length int, intn func(n int) int) string {
	return genNonceStr(baseStr, length, intn)
}
