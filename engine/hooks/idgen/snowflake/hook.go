//go:build verif

package snowflake

import "time"

// VerifSetNow replaces the wall clock of HardNode; the returned func restores it.
func VerifSetNow(f func() time.Time) (restore func()) {
	old := _HookNow
	_HookNow = f
	return func() { _HookNow = old }
}

// VerifSetConfig sets the three layout globals (Setup cannot switch node-at-lowest back off).
func VerifSetConfig(epochMs int64, nodeBits uint8, nodeAtLowest bool) (restore func()) {
	e, b, l := _epoch, _nodeBits, _nodeAtLowest
	_epoch, _nodeBits, _nodeAtLowest = epochMs, nodeBits, nodeAtLowest
	return func() { _epoch, _nodeBits, _nodeAtLowest = e, b, l }
}

// VerifConfig reads the layout globals.
func VerifConfig() (epochMs int64, nodeBits uint8, nodeAtLowest bool) {
	return _epoch, _nodeBits, _nodeAtLowest
}
