//go:build verif

package btree

import (
	"fmt"
	"strings"
)

// VerifCheck verifies the structural invariants: every non-root node holds between degree-1 and
// 2*degree-1 items, an inner node has items+1 children, all leaves sit at one depth, items are
// strictly ascending in order traversal, and Len equals the item count.
func (t *BTree) VerifCheck() error {
	if t.root == nil {
		if t.length != 0 {
			return fmt.Errorf("nil root but length %d", t.length)
		}
		return nil
	}
	leafDepth := -1
	count := 0
	var prev Item
	var walk func(n *node, depth int, isRoot bool) error
	walk = func(n *node, depth int, isRoot bool) error {
		if len(n.items) > t.maxItems() {
			return fmt.Errorf("node at depth %d holds %d items, maximum %d", depth, len(n.items), t.maxItems())
		}
		if !isRoot && len(n.items) < t.minItems() {
			return fmt.Errorf("non-root node at depth %d holds %d items, minimum %d", depth, len(n.items), t.minItems())
		}
		if len(n.children) == 0 {
			if leafDepth == -1 {
				leafDepth = depth
			} else if leafDepth != depth {
				return fmt.Errorf("leaves at depths %d and %d", leafDepth, depth)
			}
			for _, it := range n.items {
				if prev != nil && !prev.Less(it) {
					return fmt.Errorf("items out of order: %v before %v", prev, it)
				}
				prev = it
				count++
			}
			return nil
		}
		if len(n.children) != len(n.items)+1 {
			return fmt.Errorf("inner node at depth %d has %d items and %d children", depth, len(n.items), len(n.children))
		}
		for i, c := range n.children {
			if c == nil {
				return fmt.Errorf("nil child at depth %d", depth)
			}
			if err := walk(c, depth+1, false); err != nil {
				return err
			}
			if i < len(n.items) {
				it := n.items[i]
				if prev != nil && !prev.Less(it) {
					return fmt.Errorf("items out of order: %v before %v", prev, it)
				}
				prev = it
				count++
			}
		}
		return nil
	}
	if err := walk(t.root, 0, true); err != nil {
		return err
	}
	if count != t.length {
		return fmt.Errorf("tree holds %d items but Len() is %d", count, t.length)
	}
	return nil
}

// VerifShape dumps the node structure in pre-order (canonical state for the explorer).
func (t *BTree) VerifShape(show func(Item) string) string {
	var b strings.Builder
	var walk func(n *node)
	walk = func(n *node) {
		b.WriteString("(")
		for i, it := range n.items {
			if i > 0 {
				b.WriteString(" ")
			}
			b.WriteString(show(it))
		}
		for _, c := range n.children {
			walk(c)
		}
		b.WriteString(")")
	}
	if t.root != nil {
		walk(t.root)
	}
	return b.String()
}
