//go:build verif

package tree

import "github.com/pinealctx/neptune/ds/tree/btree"

// VerifInner exposes the wrapped tree (structural checks / state hashing only).
func (b *BTree) VerifInner() *btree.BTree { return b.t }
