//go:build verif

package mux

// VerifCachePeek reads the group's cache entry for k without going through a worker (observation only).
func VerifCachePeek(w *WorkerGrp, k Hashed2Int) (interface{}, bool) {
	return w.ws[w.locHash(k)].ca.Peek(k)
}

// VerifWorkerOf returns the index of the worker that serves k.
func VerifWorkerOf(w *WorkerGrp, k Hashed2Int) int { return w.locHash(k) }
