//go:build verif

package mux

// VerifCachePeek reads the group's cache entry for k without going through a worker (observation only).
func VerifCachePeek(w *WorkerGrp, k Hashed2Int) (interface{}, bool) {
	return w.ws[w.locHash(k)].ca.Peek(k)
}

// VerifWorkerOf returns the index of the worker that serves k.
func VerifWorkerOf(w *WorkerGrp, k Hashed2Int) int { return w.locHash(k) }

// VerifCacheHolders lists the workers whose cache holds an entry for k (only the worker that serves k
// may ever hold one).
func VerifCacheHolders(w *WorkerGrp, k Hashed2Int) []int {
	var o []int
	for i, wk := range w.ws {
		if _, ok := wk.ca.Peek(k); ok {
			o = append(o, i)
		}
	}
	return o
}
