//go:build verif

package keylock

func (d *KeyLocker) verifEntries() int {
	d.locker.Lock()
	defer d.locker.Unlock()
	return len(d.lockMap)
}

func (d *KeyLocker) verifCounts(key interface{}) (r, w int, present bool) {
	d.locker.Lock()
	defer d.locker.Unlock()
	e, ok := d.lockMap[key]
	if !ok {
		return 0, 0, false
	}
	return int(e.readCount), int(e.writeCount), true
}

// VerifEntries returns the number of per-key entries an interface{}-keyed locker retains.
func VerifEntries(l Locker) int {
	switch x := l.(type) {
	case *KeyLocker:
		return x.verifEntries()
	case *KeyLockerGrp:
		n := 0
		for _, s := range x.ls {
			n += s.verifEntries()
		}
		return n
	}
	return -1
}

// VerifKeyCounts returns the registered reader/writer counts of a key.
func VerifKeyCounts(l Locker, key interface{}) (r, w int, present bool) {
	switch x := l.(type) {
	case *KeyLocker:
		return x.verifCounts(key)
	case *KeyLockerGrp:
		return x.calculateKey(key).verifCounts(key)
	}
	return 0, 0, false
}

func (d *TKeyLocker[T]) verifEntries() int {
	d.locker.Lock()
	defer d.locker.Unlock()
	return len(d.lockMap)
}

// VerifTEntries returns the number of per-key entries a generic locker retains.
func VerifTEntries[T comparable](l TLocker[T]) int {
	switch x := l.(type) {
	case *TKeyLocker[T]:
		return x.verifEntries()
	case *TKeyLockerGrp[T]:
		n := 0
		for _, s := range x.ls {
			n += s.verifEntries()
		}
		return n
	}
	return -1
}

// VerifTShard returns the shard index a generic group locker routes key to (0 for a single locker).
func VerifTShard[T comparable](l TLocker[T], key T) int {
	if x, ok := l.(*TKeyLockerGrp[T]); ok {
		return x.calKeyFn(key)
	}
	return 0
}

// VerifTGroupOrder returns, for a generic group locker, the shard indexes in the order in which a
// multi-key call with these keys visits them, and the keys handed to each shard (ok=false for other lockers).
func VerifTGroupOrder[T comparable](l TLocker[T], keys []T) (idx []int, per [][]T, ok bool) {
	x, isGrp := l.(*TKeyLockerGrp[T])
	if !isGrp {
		return nil, nil, false
	}
	for _, m := range x.calculateSortedMultiKeys(keys) {
		idx = append(idx, m.index)
		per = append(per, append([]T{}, m.ks...))
	}
	return idx, per, true
}
