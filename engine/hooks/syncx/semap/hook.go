//go:build verif

package semap

func (s *SemMap) verifKeyState(key interface{}) (held, waiters int, present bool) {
	s.mux.Lock()
	defer s.mux.Unlock()
	w, ok := s.m[key]
	if !ok {
		return 0, 0, false
	}
	return int(w.cur), w.waiters.Len(), true
}

func (s *SemMap) verifEntries() int {
	s.mux.Lock()
	defer s.mux.Unlock()
	return len(s.m)
}

// VerifKeyState returns the tokens held, the number of queued waiters and whether the map keeps an entry.
func VerifKeyState(m SemMapper, key interface{}) (held, waiters int, present bool) {
	switch x := m.(type) {
	case *SemMap:
		return x.verifKeyState(key)
	case *WideSemMap:
		return x.calculateKey(key).verifKeyState(key)
	}
	return 0, 0, false
}

// VerifEntries returns the number of per-key entries the container keeps.
func VerifEntries(m SemMapper) int {
	switch x := m.(type) {
	case *SemMap:
		return x.verifEntries()
	case *WideSemMap:
		n := 0
		for _, s := range x.ms {
			n += s.verifEntries()
		}
		return n
	}
	return -1
}

// VerifWaiters returns the queued waiter count of the semaphore a caller holds (0 if it is detached).
func (s *Weighted) VerifState() (cur, size, waiters int) { return int(s.cur), int(s.size), s.waiters.Len() }
