//go:build verif

package bitmap1024

import "github.com/pinealctx/neptune/bitmap1024/internal"

// VerifSetSparseMagic sets the sparse/dense traversal threshold (the setter lives in an internal package).
func VerifSetSparseMagic(n int32) { internal.SetSparseMagic(n) }
