//go:build verif

package cache

import (
	"fmt"
	"math"
	"sort"
	"strings"
)

// VerifSetNow replaces the package clock; the returned func restores it.
func VerifSetNow(f func() int64) (restore func()) {
	old := now
	now = f
	return func() { now = old }
}

// VerifTTLDump dumps the complete state of an in-memory TTL cache: the recency list (front first) with
// deadlines relative to the current clock, and the index keys (state hashing only).
func VerifTTLDump(c TTLCache) string {
	t, ok := c.(*ttlMemCache)
	if !ok {
		return ""
	}
	var b strings.Builder
	cur := now()
	for e := t.eleList.Front(); e != nil; e = e.Next() {
		n := e.Value.(*ttlNode)
		d := "never"
		if n.deadline != math.MaxInt64 {
			d = fmt.Sprint(n.deadline - cur)
		}
		fmt.Fprintf(&b, "%s=%x@%s,", n.key, n.value, d)
	}
	b.WriteString("|")
	var ks []string
	for k, e := range t.eleHash {
		n := e.Value.(*ttlNode)
		d := "never"
		if n.deadline != math.MaxInt64 {
			d = fmt.Sprint(n.deadline - cur)
		}
		ks = append(ks, fmt.Sprintf("%s=%x@%s", k, n.value, d))
	}
	sort.Strings(ks)
	b.WriteString(strings.Join(ks, ","))
	return b.String()
}
