//go:build verif

package tex

// VerifState exposes the complete private state of a Buffer (state hashing only).
func (b *Buffer) VerifState() (buf []byte, off, capacity int, lastRead int8) {
	return b.buf, b.off, cap(b.buf), int8(b.lastRead)
}
