//go:build verif

package stcp

import "net"

// VerifLoopAccept is LoopStart with the listener supplied by the caller instead of net.Listen
// (everything after startListen is the unmodified code).
func VerifLoopAccept(s *Server, ln net.Listener, opts ...Option) error {
	var cnf = defaultStartOpt()
	for _, opt := range opts {
		opt(cnf)
	}
	s.ch.SetLogger(cnf.logger)
	s.ln = ln
	return s.loopAccept(cnf)
}
