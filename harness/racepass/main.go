// racepass: auxiliary, NOT a deciding check (DESIGN.md §2.4).  Free-running workloads (real goroutines,
// real sync, built with -race, no scheduler) over every neptune package that an engine-S check
// explores; the race detector watches the library code.  Engine S places schedule points at
// synchronisation operations only, which is exhaustive provided the library is data-race free - this
// pass is the empirical guard of that proviso.  Each workload mirrors the thread bodies of the
// corresponding engine-S scenarios (same calls, same collisions), run for a few hundred rounds.
package main

import (
	"context"
	"flag"
	"fmt"
	"net"
	"os"
	"sync"
	"time"

	"github.com/pinealctx/neptune/cache"
	"github.com/pinealctx/neptune/cache/tiny"
	"github.com/pinealctx/neptune/ds/tree"
	"github.com/pinealctx/neptune/ds/tree/btree"
	"github.com/pinealctx/neptune/idgen/nano"
	"github.com/pinealctx/neptune/idgen/snowflake"
	"github.com/pinealctx/neptune/queue/priq"
	"github.com/pinealctx/neptune/queue/syncq"
	"github.com/pinealctx/neptune/remap"
	"github.com/pinealctx/neptune/stcp"
	"github.com/pinealctx/neptune/syncx/keylock"
	"github.com/pinealctx/neptune/syncx/pipe"
	"github.com/pinealctx/neptune/syncx/pipe/async"
	"github.com/pinealctx/neptune/syncx/pipe/line"
	"github.com/pinealctx/neptune/syncx/pipe/mline"
	"github.com/pinealctx/neptune/syncx/pipe/mq"
	"github.com/pinealctx/neptune/syncx/pipe/mux"
	"github.com/pinealctx/neptune/syncx/pipe/q"
	"github.com/pinealctx/neptune/syncx/semap"

	_ "verifh/quiet"
)

type item struct{ k, v int }

func (a *item) Less(b btree.Item) bool { return a.k < b.(*item).k }

type sval int

func (sval) Size() int { return 1 }

type pent struct{ id, pri int }

func (e pent) GetPriority() int { return e.pri }

// par runs the bodies concurrently and waits for all of them.
func par(bodies ...func()) {
	var wg sync.WaitGroup
	for _, b := range bodies {
		wg.Add(1)
		b := b
		go func() { defer wg.Done(); b() }()
	}
	wg.Wait()
}

type workload struct {
	name string
	prop string
	run  func(round int)
}

func cancelled() context.Context {
	c, f := context.WithCancel(context.Background())
	f()
	return c
}

func workloads() []workload {
	bg := context.Background()
	var ws []workload
	// C01 semap
	for _, mk := range []struct {
		n string
		f func() semap.SemMapper
	}{{"SemMap", func() semap.SemMapper { return semap.NewSemMap(semap.WithRwRatio(2)) }},
		{"WideSemMap", func() semap.SemMapper { return semap.NewWideSemMap(semap.WithRwRatio(2), semap.WithPrime(2)) }},
		{"WideXHashSemMap", func() semap.SemMapper { return semap.NewWideXHashSemMap(semap.WithRwRatio(2), semap.WithPrime(2)) }}} {
		mk := mk
		ws = append(ws, workload{"semap/" + mk.n, "C01", func(int) {
			m := mk.f()
			rd := func(k interface{}) func() {
				return func() {
					for i := 0; i < 3; i++ {
						if h, err := m.AcquireRead(bg, k); err == nil {
							m.ReleaseRead(k, h)
						}
					}
				}
			}
			wr := func(k interface{}) func() {
				return func() {
					for i := 0; i < 3; i++ {
						if h, err := m.AcquireWrite(bg, k); err == nil {
							m.ReleaseWrite(k, h)
						}
					}
				}
			}
			cn := func() {
				c, f := context.WithTimeout(bg, 50*time.Microsecond)
				defer f()
				if h, err := m.AcquireWrite(c, 1); err == nil {
					m.ReleaseWrite(1, h)
				}
			}
			par(rd(1), rd(1), wr(1), wr(3), cn, rd("a"), wr("a"))
		}})
	}
	// C02 keylock
	ws = append(ws, workload{"keylock/KeyLocker+groups", "C02", func(int) {
		for _, l := range []keylock.Locker{keylock.NewKeyLocker(), keylock.NewKeyLockeGrp(remap.WithPrime(2)), keylock.NewXHashKeyLockeGrp(remap.WithPrime(3))} {
			l := l
			par(func() { l.Lock(1); l.Unlock(1) }, func() { l.RLock(1); l.RUnlock(1) }, func() { l.RLock(1); l.RUnlock(1) },
				func() { l.Lock(2); l.Unlock(2) }, func() { l.RLock(3); l.RUnlock(3) }, func() { l.Lock(3); l.Unlock(3) })
		}
		for _, l := range []keylock.TLocker[int]{keylock.NewTKeyLocker[int](), keylock.NewTKeyLockeGrp[int](remap.WithPrime(2)), keylock.NewTXHashTKeyLockeGrp[int](remap.WithPrime(3))} {
			l := l
			par(func() { l.Lock(1); l.Unlock(1) }, func() { l.RLock(1); l.RUnlock(1) }, func() { l.RLock(1); l.RUnlock(1) },
				func() { ks := []int{1, 2, 3}; l.Locks(ks); l.Unlocks(ks) }, func() { ks := []int{2, 3}; l.RLocks(ks); l.RUnlocks(ks) }, func() { l.Lock(3); l.Unlock(3) })
		}
	}})
	// C03 locked B-tree wrapper; clone isolation
	ws = append(ws, workload{"tree/BTree-wrapper", "C03", func(r int) {
		t := tree.NewBTree()
		for k := 0; k < 12; k += 2 {
			t.Insert(&item{k, 0})
		}
		all := func(tree.Node) bool { return true }
		par(func() { t.Insert(&item{3, r}); t.Delete(&item{k: 4}) }, func() { t.Update(&item{k: 2}, &item{2, r}); t.UpdateOrInsert(&item{k: 7}, &item{7, r}) },
			func() { _ = t.Get(&item{k: 2}); _ = t.AscendGte(&item{k: 1}, all, 10) }, func() { _ = t.DescendLt(&item{k: 9}, all, 10) })
	}})
	ws = append(ws, workload{"btree/clone-writers", "C03", func(r int) {
		t := btree.New(2)
		for k := 0; k < 20; k++ {
			t.ReplaceOrInsert(&item{k, 0})
		}
		c := t.Clone()
		par(func() {
			for k := 0; k < 20; k += 2 {
				t.Delete(&item{k: k})
				t.ReplaceOrInsert(&item{k + 100, r})
			}
		}, func() {
			for k := 1; k < 20; k += 2 {
				c.Delete(&item{k: k})
				c.ReplaceOrInsert(&item{k + 200, r})
			}
		})
	}})
	// C04 LRU caches
	ws = append(ws, workload{"cache/LRUCache+tiny", "C04", func(r int) {
		c := cache.NewLRUCache(3)
		par(func() { c.Set("a", sval(r)); _, _ = c.Get("b") }, func() { c.Set("b", sval(r)); c.Set("c", sval(r)); c.Set("d", sval(r)) },
			func() { _, _ = c.Peek("a"); _ = c.Delete("b"); _ = c.Keys() }, func() { _ = c.Items(); c.SetCapacity(2); _ = c.Size() })
		t := tiny.NewLRUCache(3)
		par(func() { t.Set("a", r); _, _ = t.Get("b") }, func() { t.Set("b", r); t.Set("c", r); t.Set("d", r) }, func() { _, _ = t.Peek("a"); _ = t.Delete("b") })
	}})
	// C05 TTL cache
	ws = append(ws, workload{"cache/TTLMemCache", "C05", func(r int) {
		c := cache.NewTTLMemCache(4, 0)
		_ = c.Set(bg, "k", []byte("v0"))
		par(func() { _ = c.Set(bg, "k", []byte("v1")) }, func() { _ = c.Set(bg, "k", []byte("v2"), cache.WithMustNotExist()) },
			func() { _, _ = c.Get(bg, "k", cache.WithRemoveAfterGet()) }, func() { _, _ = c.Get(bg, "k"); _ = c.Remove(bg, "k") }, func() { _ = c.Set(bg, "j", []byte("x"), cache.WithTTL(1)) })
	}})
	// C06 id generators
	ws = append(ws, workload{"idgen/nodes", "C06", func(int) {
		n, _ := snowflake.NewNode(3, 0)
		m, _ := snowflake.NewMonoNode(3)
		g := nano.NewUnixNanoID(0)
		gen := func(f func() int64) func() {
			return func() {
				for i := 0; i < 50; i++ {
					_ = f()
				}
			}
		}
		par(gen(n.Generate), gen(n.Generate), gen(m.Generate), gen(m.Generate), gen(g.GenID), gen(g.GenID))
	}})
	// C13 queues
	ws = append(ws, workload{"queues/blocking-pop+close", "C13", func(int) {
		type qa struct {
			add, prior func(int)
			pop        func()
			close      func()
		}
		x1, x2, x3, x4, x5 := q.NewQ(), async.NewQ(0), mux.NewQ(0), mq.NewMQ(), syncq.NewSyncQueue()
		qs := []qa{
			{func(v int) { _ = x1.AddReq(v) }, func(v int) { _ = x1.AddPriorReq(v) }, func() { _, _ = x1.PopAnyway() }, x1.Close},
			{func(v int) { _ = x2.Add(v) }, func(v int) { _ = x2.AddPrior(v) }, func() { _, _ = x2.PopAnyway() }, x2.Close},
			{func(v int) { _ = x3.AddReq(v) }, func(v int) { _ = x3.AddPriorReq(v) }, func() { _, _ = x3.PopAnyway() }, x3.Close},
			{func(v int) { _ = x4.AddReq(v) }, func(v int) { _ = x4.AddCtrl(v) }, func() { _, _ = x4.PopAnyway() }, x4.Close},
			{func(v int) { x5.Push(v) }, func(v int) { x5.Push(v) }, func() { _ = x5.Pop() }, x5.Close},
		}
		for _, a := range qs {
			a := a
			par(func() { a.pop(); a.pop() }, func() { a.pop() }, func() { a.add(1); a.prior(2) }, func() { a.add(3); a.close() })
		}
		p := priq.NewPriQueue(4)
		par(func() { _ = p.Push(pent{1, 1}); _ = p.Push(pent{2, 5}) }, func() { _ = p.Push(pent{3, 5}) }, func() {
			for i := 0; i < 3; i++ {
				<-p.WaitCh()
				_ = p.Pop()
			}
		})
	}})
	// C14 actor lanes
	ws = append(ws, workload{"pipe/line+mline+runner+procchan", "C14", func(r int) {
		wg := &sync.WaitGroup{}
		l := line.NewLine(wg, line.WithQSize(4))
		l.Run()
		call := func(id int) func() {
			return func() {
				_, _ = l.AsyncCall(bg, line.NewCallCtx(func(c context.Context, req interface{}) (interface{}, error) { return req, nil }, id))
			}
		}
		par(call(1), call(2), func() {
			_, _ = l.AsyncCall(cancelled(), line.NewCallCtx(func(c context.Context, req interface{}) (interface{}, error) { return req, nil }, 3))
		}, l.Stop)
		wg.Wait()
		m := mline.NewMultiLine(pipe.WithSlotSize(2), pipe.WithQSize(4))
		m.Run()
		mcall := func(h int) func() {
			return func() {
				_, _ = m.AsyncCall(bg, mline.NewCallCtx(h, func(c context.Context, lane int, req interface{}) (interface{}, error) { return lane, nil }, h))
			}
		}
		par(mcall(1), mcall(2), mcall(3), m.Stop)
		_ = m.WaitStop(bg)
		wg2 := &sync.WaitGroup{}
		rq := async.NewRunnerQ(async.WithQSize(4), async.WithWaitGroup(wg2))
		rq.Run()
		par(func() {
			_, _ = rq.AsyncCall(func(c context.Context, arg interface{}) (interface{}, error) { return arg, nil }, bg, 1)
		}, func() { _, _ = rq.AsyncDelegate(bg, func(c context.Context) (interface{}, error) { return 2, nil }) }, rq.Stop)
		rq.WaitStop()
		wg2.Wait()
	}})
	// C15 mux worker group
	ws = append(ws, workload{"mux/WorkerGrp", "C15", func(r int) {
		for _, g := range []*mux.WorkerGrp{mux.NewWorkGrpWithMapCache(mux.WithSize(2), mux.WithDeep(8)), mux.NewWorkGrpWithLRU(2, mux.WithSize(1), mux.WithDeep(8))} {
			g := g
			var mu sync.Mutex
			st := map[mux.Int]string{}
			load := func(ctx context.Context, d interface{}) (interface{}, error) {
				mu.Lock()
				defer mu.Unlock()
				if v, ok := st[d.(mux.Int)]; ok {
					return v, nil
				}
				return nil, fmt.Errorf("not found")
			}
			type rec struct {
				k mux.Int
				v string
			}
			add := func(ctx context.Context, d interface{}) (interface{}, error) {
				mu.Lock()
				defer mu.Unlock()
				st[d.(rec).k] = d.(rec).v
				return d.(rec).v, nil
			}
			upd := func(ctx context.Context, d interface{}, pre interface{}) (interface{}, error) {
				mu.Lock()
				defer mu.Unlock()
				st[d.(rec).k] = d.(rec).v
				return d.(rec).v, nil
			}
			del := func(ctx context.Context, d interface{}) error {
				mu.Lock()
				defer mu.Unlock()
				delete(st, d.(mux.Int))
				return nil
			}
			g.Start()
			par(func() { _, _ = g.DoAdd(bg, add, mux.Int(1), rec{1, "a"}); _, _ = g.DoGet(bg, load, mux.Int(1)) },
				func() {
					_, _ = g.DoUpdate(bg, load, upd, mux.Int(1), rec{1, "b"})
					_, _ = g.DoDelete(bg, del, mux.Int(1))
				},
				func() {
					_, _ = g.DoUpsertThenLoad(bg, upd, load, mux.Int(3), rec{3, "c"})
					_, _ = g.DoGet(bg, load, mux.Int(3))
				},
				func() {
					_, _ = g.DoUpsertThenRenewInCache(bg, upd, mux.Int(1), rec{1, "d"})
					_, _ = g.DoGet(bg, load, mux.Int(1))
				})
			g.Stop()
			_ = g.WaitStop(bg)
		}
	}})
	// C16 stcp session over an in-memory pipe
	ws = append(ws, workload{"stcp/session", "C16", func(r int) {
		h := &echoH{}
		mgr := stcp.NewSessionMgr(h, stcp.WithReadTimeout(200*time.Millisecond), stcp.WithWriteTimeout(200*time.Millisecond))
		a, b := net.Pipe()
		s := stcp.NewSession(mgr, a)
		s.Start()
		par(func() { _ = s.Send([]byte("ab")); _ = s.Send([]byte("c")); _ = mgr.ConnCount() },
			func() {
				buf := make([]byte, 3)
				_ = b.SetDeadline(time.Now().Add(100 * time.Millisecond))
				_, _ = b.Write([]byte("x"))
				n := 0
				for n < 3 {
					k, err := b.Read(buf[n:])
					if err != nil {
						break
					}
					n += k
				}
			}, func() {
				if r%2 == 0 {
					s.Close()
				} else {
					_ = b.Close()
				}
			})
		s.Close()
		_ = b.Close()
		dl := time.Now().Add(2 * time.Second)
		for mgr.ConnCount() != 0 && time.Now().Before(dl) {
			time.Sleep(time.Millisecond)
		}
	}})
	// C15 routing: keys of every hashing family hashed by several goroutines at once
	ws = append(ws, workload{"mux/key-hashing", "C15", func(r int) {
		h := func(ks ...mux.Hashed2Int) func() {
			return func() {
				for i := 0; i < 20; i++ {
					for _, k := range ks {
						_ = k.HashedInt()
					}
				}
			}
		}
		par(h(mux.Int64CRC(r), mux.IntCRC(r), mux.String("a"), mux.Int32CRC(r)), h(mux.UInt64CRC(r), mux.UIntCRC(r), mux.Bytes("b"), mux.UInt32CRC(r)), h(mux.Int64CRC(-r), mux.Int(r)))
	}})
	// C16 flush clause over REAL loopback TCP (kernel sockets cannot be put under the scheduler; code that
	// special-cases *net.TCPConn is invisible to the fake connection of the model-checked scenarios):
	// everything accepted by Send before a local Close reaches a slowly reading peer, which then sees EOF.
	ws = append(ws, workload{"stcp/loopback-flush", "C16", func(r int) {
		if r >= 3 {
			return // three rounds (one per write timeout) are enough; each moves 2 MiB
		}
		wt := []time.Duration{500 * time.Millisecond, 999 * time.Millisecond, 3 * time.Second}[r]
		ln, err := net.Listen("tcp", "127.0.0.1:0")
		if err != nil {
			fmt.Println("RACEPASS-NOTE loopback unavailable:", err)
			return
		}
		defer ln.Close()
		mgr := stcp.NewSessionMgr(&echoH{}, stcp.WithWriteTimeout(wt), stcp.WithReadTimeout(5*time.Second))
		const chunk, chunks = 64 << 10, 32
		done := make(chan string, 1)
		go func() {
			c, err := net.Dial("tcp", ln.Addr().String())
			if err != nil {
				done <- "dial: " + err.Error()
				return
			}
			defer c.Close()
			time.Sleep(30 * time.Millisecond) // a lagging peer
			buf := make([]byte, 32<<10)
			total := 0
			for {
				_ = c.SetReadDeadline(time.Now().Add(5 * time.Second))
				n, err := c.Read(buf)
				total += n
				if err != nil {
					if err.Error() == "EOF" && total == chunk*chunks {
						done <- ""
					} else {
						done <- fmt.Sprintf("peer received %d of %d bytes, stream ended with %v (write timeout %v)", total, chunk*chunks, err, wt)
					}
					return
				}
			}
		}()
		sc, err := ln.Accept()
		if err != nil {
			fmt.Println("RACEPASS-NOTE accept:", err)
			return
		}
		s := stcp.NewSession(mgr, sc)
		s.Start()
		payload := make([]byte, chunk)
		for i := 0; i < chunks; i++ {
			if err := s.Send(payload); err != nil {
				fmt.Println("RACEPASS-FLUSH-FAIL Send refused:", err)
			}
		}
		s.Close()
		if msg := <-done; msg != "" {
			fmt.Println("RACEPASS-FLUSH-FAIL", msg)
		}
	}})
	return ws
}

type echoH struct{}

func (*echoH) Read(s *stcp.Session) error {
	var b [1]byte
	return s.Read(b[:])
}
func (*echoH) OnExit(*stcp.Session) {}

func main() {
	rounds := flag.Int("rounds", 200, "rounds per workload")
	flag.Parse()
	for _, w := range workloads() {
		t0 := time.Now()
		done := make(chan struct{})
		go func() {
			for r := 0; r < *rounds; r++ {
				w.run(r)
			}
			close(done)
		}()
		select {
		case <-done:
			fmt.Printf("RACEPASS-WORKLOAD %s property=%s rounds=%d wall=%.1fs\n", w.name, w.prop, *rounds, time.Since(t0).Seconds())
		case <-time.After(120 * time.Second):
			fmt.Printf("RACEPASS-WORKLOAD %s property=%s STUCK after 120s (workload problem, not a race report)\n", w.name, w.prop)
			os.Exit(3)
		}
	}
}
