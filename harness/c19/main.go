// C19: vcode — a sent code verifies once-correct, attempts and sends are bounded (engine H + I).
package main

import (
	"fmt"
	"sort"
	"strings"
	"time"

	"github.com/pinealctx/neptune/idgen/random"
	"github.com/pinealctx/neptune/tex"
	"github.com/pinealctx/neptune/vcode"
	"github.com/pinealctx/neptune/zverif/vtime"

	"verifh/ev"
	_ "verifh/quiet"
	"verifh/seq"
)

type cfg struct {
	codeLen, maxVerify, maxCount       int
	ttlValid, tooFreq, refreshed, mock bool
}

func (c cfg) String() string {
	return fmt.Sprintf("codeLen=%d/maxVerify=%d/maxCount=%d/lifetime=%s/interval=%s/window=%s/mock=%v", c.codeLen, c.maxVerify, c.maxCount,
		map[bool]string{true: "valid", false: "expired"}[c.ttlValid], map[bool]string{true: "always-too-frequent", false: "never"}[c.tooFreq], map[bool]string{true: "always-refreshed", false: "never-refreshed"}[c.refreshed], c.mock)
}

func (c cfg) config() *vcode.Config {
	pick := func(b bool, t, f time.Duration) tex.Duration {
		if b {
			return tex.Duration(t)
		}
		return tex.Duration(f)
	}
	return &vcode.Config{CacheSize: 1000, Mock: c.mock, CodeLen: c.codeLen, MaxCount: c.maxCount, MaxVerifyCount: c.maxVerify,
		TTL: pick(c.ttlValid, time.Hour, -1), MinInterval: pick(c.tooFreq, time.Hour, 0), CounterDuration: pick(c.refreshed, -1, time.Hour)}
}

type pair struct{ area, phone string }

var pairs = []pair{{"86", "13800001234"}, {"86", "13900005678"}, {"1", "23"}, {"12", "3"}}

type capture struct{ last map[pair]string }

func (c *capture) SendCode(area, phone, code string) error {
	c.last[pair{area, phone}] = code
	return nil
}

type rec struct {
	sent     bool
	code     string
	hash     string
	attempts int
	sends    int
}

type st struct {
	c   cfg
	l   vcode.VCLogic
	cap *capture
	m   map[pair]*rec
}

func mockCode(phone string, n int) string {
	if len(phone) >= n {
		return phone[len(phone)-n:]
	}
	return strings.Repeat("0", n-len(phone)) + phone
}

func ops(c cfg, ps []pair) []seq.Op[*st] {
	var o []seq.Op[*st]
	for pi, p := range ps {
		p := p
		o = append(o, seq.Op[*st]{Name: fmt.Sprintf("Send(%s,%s)", p.area, p.phone), Step: func(s *st) (string, string) {
			hash, err := s.l.SendSMSCode(p.area, p.phone)
			m := s.m[p]
			// admissible answers
			mustRefuse, mustAccept := false, true
			if s.c.tooFreq && m.sent {
				mustRefuse, mustAccept = true, false
			}
			if !s.c.refreshed {
				if m.sends+1 > s.c.maxCount+1 {
					mustRefuse, mustAccept = true, false
				} else if m.sends+1 > s.c.maxCount {
					mustAccept = false // boundary send: either answer
				}
			}
			switch {
			case err != nil && mustAccept:
				return "refused", fmt.Sprintf("send #%d to (%s,%s) refused with %v although it is neither too frequent nor beyond the count limit", m.sends+1, p.area, p.phone, err)
			case err == nil && mustRefuse:
				return "accepted", fmt.Sprintf("send #%d to (%s,%s) accepted although it must be refused (interval regime %v, accepted sends so far %d, max count %d)", m.sends+1, p.area, p.phone, s.c.tooFreq, m.sends, s.c.maxCount)
			case err != nil:
				return "refused", ""
			}
			code := ""
			if s.c.mock {
				code = mockCode(p.phone, s.c.codeLen)
				if _, sentOut := s.cap.last[p]; sentOut {
					return "accepted", "mock mode handed a code to the SMS sender"
				}
			} else {
				var ok bool
				code, ok = s.cap.last[p]
				if !ok {
					return "accepted", fmt.Sprintf("send to (%s,%s) accepted but the SMS sender received no code", p.area, p.phone)
				}
				delete(s.cap.last, p)
				if len(code) != s.c.codeLen || strings.Trim(code, "0123456789") != "" {
					return "accepted", fmt.Sprintf("generated code %q does not have the configured length %d over the digit alphabet", code, s.c.codeLen)
				}
			}
			if hash == "" {
				return "accepted", "accepted send returned an empty hash"
			}
			m.sent, m.code, m.hash, m.attempts = true, code, hash, 0
			m.sends++
			return "accepted", ""
		}})
		for _, rightCode := range []bool{true, false} {
			for _, rightHash := range []bool{true, false} {
				rightCode, rightHash := rightCode, rightHash
				o = append(o, seq.Op[*st]{Name: fmt.Sprintf("Verify(%s,%s,code=%s,hash=%s)", p.area, p.phone, rw(rightCode), rw(rightHash)), Step: func(s *st) (string, string) {
					m := s.m[p]
					code, hash := m.code, m.hash
					if !m.sent {
						code, hash = "0000", "nohash"
					}
					if !rightCode {
						code = flip(code)
					}
					if !rightHash {
						hash = flip(hash)
					}
					err := s.l.VerifySMSCode(p.area, p.phone, code, hash)
					if !m.sent {
						if err == nil {
							return "ok", fmt.Sprintf("verification for (%s,%s) succeeded although no code was ever sent to it", p.area, p.phone)
						}
						return "fail", ""
					}
					m.attempts++
					want := rightCode && rightHash && m.attempts <= s.c.maxVerify && s.c.ttlValid
					if (err == nil) != want {
						return fmt.Sprint(err == nil), fmt.Sprintf("attempt #%d on (%s,%s) with %s code and %s hash: verification %s (err=%v); limit %d attempts, lifetime %s — expected %s",
							m.attempts, p.area, p.phone, rw(rightCode), rw(rightHash), okStr(err == nil), err, s.c.maxVerify, map[bool]string{true: "valid", false: "expired"}[s.c.ttlValid], okStr(want))
					}
					return fmt.Sprint(err == nil), ""
				}})
			}
		}
		// the other pair's credentials
		q := ps[(pi+1)%len(ps)]
		o = append(o, seq.Op[*st]{Name: fmt.Sprintf("Verify(%s,%s,credentials of %s,%s)", p.area, p.phone, q.area, q.phone), Enabled: func(s *st) bool { return s.m[q].sent },
			Step: func(s *st) (string, string) {
				m, mq := s.m[p], s.m[q]
				err := s.l.VerifySMSCode(p.area, p.phone, mq.code, mq.hash)
				if m.sent {
					m.attempts++
				}
				if err == nil {
					return "ok", fmt.Sprintf("(%s,%s) verified with the code and hash that were sent to (%s,%s)", p.area, p.phone, q.area, q.phone)
				}
				return "fail", ""
			}})
	}
	return o
}

func rw(b bool) string {
	if b {
		return "right"
	}
	return "wrong"
}

func okStr(b bool) string {
	if b {
		return "succeeds"
	}
	return "fails"
}

func flip(s string) string {
	if s == "" {
		return "x"
	}
	b := []byte(s)
	if b[len(b)-1] == '0' {
		b[len(b)-1] = '1'
	} else {
		b[len(b)-1] = '0'
	}
	return string(b)
}

func sig(path []string, msg string) string {
	op := path[len(path)-1]
	kind := op[:strings.Index(op, "(")]
	switch {
	case strings.Contains(msg, "expected succeeds"):
		return kind + ": a correct code+hash within lifetime and attempt limit is rejected"
	case strings.Contains(msg, "expected fails"):
		return kind + ": verification succeeds where it must fail"
	case strings.Contains(msg, "refused with"):
		return kind + ": admissible send refused"
	case strings.Contains(msg, "must be refused"):
		return kind + ": inadmissible send accepted"
	}
	m := msg
	if i := strings.IndexAny(m, "(#\""); i > 0 {
		m = m[:i]
	}
	return kind + ": " + strings.TrimSpace(m)
}

// longHistories: counters must not wrap - after N wrong attempts (N around 2^8 and 2^16) against one sent
// code even the right code is rejected; after N refused sends the refusal stands.
func longHistories(c *seq.Ctx) {
	for _, mock := range []bool{true, false} {
		for _, maxVerify := range []int{1, 3} {
			for _, n := range []int{254, 255, 256, 257, 511, 512, 65535, 65536, 65537} {
				cf := cfg{4, maxVerify, 2, true, false, true, mock}
				cp := &capture{last: map[pair]string{}}
				l := vcode.NewSimpleLogic(cf.config(), cp, nil)
				p := pairs[0]
				hash, err := l.SendSMSCode(p.area, p.phone)
				code := mockCode(p.phone, 4)
				if !mock {
					code = cp.last[p]
				}
				bad := ""
				if err != nil {
					bad = "first send refused: " + err.Error()
				}
				for i := 0; i < n && bad == ""; i++ {
					if l.VerifySMSCode(p.area, p.phone, flip(code), hash) == nil {
						bad = fmt.Sprintf("wrong code accepted at attempt %d", i+1)
					}
				}
				if bad == "" {
					if e := l.VerifySMSCode(p.area, p.phone, code, hash); e == nil {
						bad = fmt.Sprintf("after %d wrong attempts against one sent code (limit %d) the right code was accepted at attempt %d: the attempt counter does not keep counting", n, maxVerify, n+1)
					}
				}
				c.Case(fmt.Sprintf("long/attempts/%v", bad == ""), bad, "attempt limit lifts again after a long run of attempts", func() interface{} { return fmt.Sprintf("mock=%v limit=%d attempts=%d", mock, maxVerify, n) })
			}
		}
	}
}

// hashNearMisses: "verification fails for any other hash" - every single-position variant of the
// returned hash (each character replaced by its other-case form, by a neighbouring digit, removed,
// or doubled), the whole-string case/blank/prefix/suffix variants, and the hash of the other pair,
// each tried with the RIGHT code on a fresh logic (so the attempt limit does not decide).
func hashNearMisses(c *seq.Ctx, mocks []bool, codeLens []int) {
	for _, mock := range mocks {
		for _, codeLen := range codeLens {
			cf := cfg{codeLen, 2, 2, true, false, true, mock}
			probe := func(variant func(h, other string) string, what string) {
				cp := &capture{last: map[pair]string{}}
				l := vcode.NewSimpleLogic(cf.config(), cp, nil)
				p, q := pairs[0], pairs[1]
				hash, err := l.SendSMSCode(p.area, p.phone)
				other, err2 := l.SendSMSCode(q.area, q.phone)
				if err != nil || err2 != nil {
					c.Case("hash/send", fmt.Sprintf("first sends refused: %v %v", err, err2), "first send refused", func() interface{} { return what })
					return
				}
				code := mockCode(p.phone, codeLen)
				if !mock {
					code = cp.last[p]
				}
				h := variant(hash, other)
				bad := ""
				if h != hash {
					if l.VerifySMSCode(p.area, p.phone, code, h) == nil {
						bad = fmt.Sprintf("the right code with hash %q verified although the hash handed out was %q (%s)", h, hash, what)
					}
				}
				if bad == "" {
					if e := l.VerifySMSCode(p.area, p.phone, code, hash); e != nil {
						bad = fmt.Sprintf("after one refused near-miss hash (%s) the right code and hash are rejected on attempt 2 of 2: %v", what, e)
					}
				}
				c.Case(fmt.Sprintf("hash/%v", bad == ""), bad, "a hash other than the one handed out verifies", func() interface{} { return fmt.Sprintf("mock=%v len=%d %s", mock, codeLen, what) })
			}
			whole := map[string]func(h, o string) string{
				"upper-cased": func(h, o string) string { return strings.ToUpper(h) }, "lower-cased": func(h, o string) string { return strings.ToLower(h) },
				"empty": func(h, o string) string { return "" }, "other pair's hash": func(h, o string) string { return o },
				"leading blank": func(h, o string) string { return " " + h }, "trailing blank": func(h, o string) string { return h + " " }, "trailing newline": func(h, o string) string { return h + "\n" },
				"trailing NUL": func(h, o string) string { return h + "\x00" }, "0x prefix": func(h, o string) string { return "0x" + h }, "doubled": func(h, o string) string { return h + h },
				"first half": func(h, o string) string { return h[:len(h)/2] }, "with dashes (uuid form)": func(h, o string) string {
					if len(h) < 20 {
						return h + "-"
					}
					return h[:8] + "-" + h[8:12] + "-" + h[12:16] + "-" + h[16:20] + "-" + h[20:]
				},
			}
			for what, f := range whole {
				probe(f, what)
			}
			// the same for the code: near-misses of the sent code with the RIGHT hash
			codeProbe := func(variant func(code string) string, what string) {
				cp := &capture{last: map[pair]string{}}
				l := vcode.NewSimpleLogic(cf.config(), cp, nil)
				p := pairs[0]
				hash, err := l.SendSMSCode(p.area, p.phone)
				if err != nil {
					c.Case("code/send", "first send refused: "+err.Error(), "first send refused", func() interface{} { return what })
					return
				}
				code := mockCode(p.phone, codeLen)
				if !mock {
					code = cp.last[p]
				}
				v := variant(code)
				bad := ""
				if v != code && l.VerifySMSCode(p.area, p.phone, v, hash) == nil {
					bad = fmt.Sprintf("code %q verified although the code sent was %q (%s)", v, code, what)
				}
				if bad == "" {
					if e := l.VerifySMSCode(p.area, p.phone, code, hash); e != nil {
						bad = fmt.Sprintf("after one refused near-miss code (%s) the right code and hash are rejected on attempt 2 of 2: %v", what, e)
					}
				}
				c.Case(fmt.Sprintf("code-near-miss/%v", bad == ""), bad, "a code other than the one sent verifies", func() interface{} { return fmt.Sprintf("mock=%v len=%d %s", mock, codeLen, what) })
			}
			fullwidth := func(code string) string {
				out := ""
				for _, ch := range code {
					if ch >= '0' && ch <= '9' {
						out += string(rune(0xFF10 + ch - '0'))
					} else {
						out += string(ch)
					}
				}
				return out
			}
			for what, f := range map[string]func(string) string{
				"empty": func(c string) string { return "" }, "trailing blank": func(c string) string { return c + " " }, "leading blank": func(c string) string { return " " + c },
				"trailing newline": func(c string) string { return c + "\n" }, "plus sign": func(c string) string { return "+" + c }, "leading zero added": func(c string) string { return "0" + c },
				"leading zeros stripped": func(c string) string { return strings.TrimLeft(c, "0") }, "trailing zero added": func(c string) string { return c + "0" }, "decimal point": func(c string) string { return c + ".0" },
				"last digit dropped": func(c string) string { return c[:len(c)-1] }, "first digit dropped": func(c string) string { return c[1:] }, "doubled": func(c string) string { return c + c },
				"full-width digits": fullwidth, "trailing NUL": func(c string) string { return c + "\x00" }, "reversed": func(c string) string {
					b := []byte(c)
					for i, j := 0, len(b)-1; i < j; i, j = i+1, j-1 {
						b[i], b[j] = b[j], b[i]
					}
					return string(b)
				},
			} {
				codeProbe(f, what)
			}
			for pos := 0; pos < codeLen; pos++ {
				pos := pos
				for d := byte(1); d <= 9; d++ {
					d := d
					codeProbe(func(c string) string {
						if pos >= len(c) || c[pos] < '0' || c[pos] > '9' {
							return c
						}
						b := []byte(c)
						b[pos] = '0' + (b[pos]-'0'+d)%10
						return string(b)
					}, fmt.Sprintf("digit %d advanced by %d", pos, d))
				}
			}
			for pos := 0; pos < 40; pos++ {
				pos := pos
				at := func(edit func(b byte) string) func(h, o string) string {
					return func(h, o string) string {
						if pos >= len(h) {
							return h
						}
						return h[:pos] + edit(h[pos]) + h[pos+1:]
					}
				}
				probe(at(func(b byte) string {
					switch {
					case 'a' <= b && b <= 'z':
						return string(b - 32)
					case 'A' <= b && b <= 'Z':
						return string(b + 32)
					}
					return string(b)
				}), fmt.Sprintf("character %d in its other case", pos))
				probe(at(func(b byte) string { return string(b ^ 1) }), fmt.Sprintf("character %d with its lowest bit flipped", pos))
				probe(at(func(b byte) string { return "" }), fmt.Sprintf("character %d removed", pos))
				probe(at(func(b byte) string { return string(b) + string(b) }), fmt.Sprintf("character %d doubled", pos))
			}
		}
	}
}

// ---- small cache: the logic keeps its per-destination records in an LRU of CacheSize entries ----
//
// A destination's record may legitimately disappear once CacheSize other destinations were used after
// its last send; until then the sent code must stay verifiable.  One-sided model: `others[p]` is the
// set of other destinations touched (send or verify, accepted or not) since the last accepted send
// to p; while it has fewer than CacheSize members the statement's verify clause applies to p, after
// that p is unconstrained until its next accepted send.

type smallSt struct {
	l      vcode.VCLogic
	cap    *capture
	mock   bool
	size   int
	m      map[pair]*rec
	others map[pair]map[pair]bool
}

var smallPairs = []pair{{"86", "13800001234"}, {"86", "13900005678"}, {"44", "7700900123"}, {"1", "2025550100"}}

func smallOps(ps []pair) []seq.Op[*smallSt] {
	var o []seq.Op[*smallSt]
	touch := func(s *smallSt, p pair) {
		for _, q := range ps {
			if q != p {
				s.others[q][p] = true
			}
		}
	}
	for _, p := range ps {
		p := p
		o = append(o, seq.Op[*smallSt]{Name: fmt.Sprintf("Send(%s,%s)", p.area, p.phone), Step: func(s *smallSt) (string, string) {
			hash, err := s.l.SendSMSCode(p.area, p.phone)
			touch(s, p)
			if err != nil {
				return "refused", fmt.Sprintf("send to (%s,%s) refused with %v although neither the interval nor the count limit applies", p.area, p.phone, err)
			}
			code := mockCode(p.phone, 4)
			if !s.mock {
				code = s.cap.last[p]
				delete(s.cap.last, p)
			}
			m := s.m[p]
			m.sent, m.code, m.hash, m.attempts = true, code, hash, 0
			s.others[p] = map[pair]bool{}
			return "accepted", ""
		}})
		for _, right := range []bool{true, false} {
			right := right
			o = append(o, seq.Op[*smallSt]{Name: fmt.Sprintf("Verify(%s,%s,code=%s)", p.area, p.phone, rw(right)), Enabled: func(s *smallSt) bool { return s.m[p].sent },
				Step: func(s *smallSt) (string, string) {
					m := s.m[p]
					code := m.code
					if !right {
						code = flip(code)
					}
					err := s.l.VerifySMSCode(p.area, p.phone, code, m.hash)
					touch(s, p)
					m.attempts++
					if len(s.others[p]) >= s.size {
						if err == nil && !right {
							return "ok", fmt.Sprintf("(%s,%s) verified with a wrong code", p.area, p.phone)
						}
						return "unconstrained", "" // the record may have been evicted
					}
					want := right && m.attempts <= 2
					if (err == nil) != want {
						return fmt.Sprint(err == nil), fmt.Sprintf("attempt #%d on (%s,%s) with the %s code: verification %s (err=%v) although only %d other destination(s) %v were used since the code was sent and the cache holds %d — expected %s",
							m.attempts, p.area, p.phone, rw(right), okStr(err == nil), err, len(s.others[p]), keys(s.others[p]), s.size, okStr(want))
					}
					return fmt.Sprint(err == nil), ""
				}})
		}
	}
	return o
}

func keys(m map[pair]bool) []string {
	var o []string
	for k := range m {
		o = append(o, k.area+"-"+k.phone)
	}
	sort.Strings(o)
	return o
}

func nonce(c *seq.Ctx) {
	for _, base := range []string{"0123456789", "ab", "x", "0123456789abcdef"} {
		asked := map[int]bool{}
		produced := map[byte]bool{}
		maxAsk := 0
		// drive the generator with every answer the index source may give
		for v := 0; v < len(base)+2; v++ {
			var out string
			pan := func() (p string) {
				defer func() {
					if r := recover(); r != nil {
						p = fmt.Sprint(r)
					}
				}()
				out = random.VerifGenNonceStr(base, 1, func(n int) int {
					asked[n] = true
					if n > maxAsk {
						maxAsk = n
					}
					if v < n {
						return v
					}
					return n - 1
				})
				return ""
			}()
			if pan != "" {
				c.Case("nonce/panic", fmt.Sprintf("alphabet %q: generator panicked for index answer %d: %s", base, v, pan), "nonce generator panics", func() interface{} { return base })
				continue
			}
			if len(out) == 1 {
				produced[out[0]] = true
			}
		}
		bad := ""
		var missing []string
		for i := 0; i < len(base); i++ {
			if !produced[base[i]] {
				missing = append(missing, string(base[i]))
			}
		}
		if len(missing) > 0 {
			bad = fmt.Sprintf("alphabet %q: characters %v can never be produced — the generator asks its index source for values below %d instead of %d", base, missing, maxAsk, len(base))
		}
		c.Case("nonce/alphabet", bad, "nonce generator cannot produce every character of the alphabet", func() interface{} { return base })
		for _, n := range []int{0, 1, 4, 6, 32} {
			for _, gen := range []struct {
				name string
				f    func(string, int) string
			}{{"GenNonceStr", random.GenNonceStr}, {"SecGenNonceStr", random.SecGenNonceStr}} {
				s := gen.f(base, n)
				bad := ""
				if len(s) != n || strings.Trim(s, base) != "" {
					bad = fmt.Sprintf("%s(%q,%d) = %q", gen.name, base, n, s)
				}
				c.Case("nonce/len", bad, gen.name+" output has the wrong length or foreign characters", func() interface{} { return fmt.Sprintf("%s(%q,%d)", gen.name, base, n) })
			}
		}
	}
}

func main() {
	r := ev.Start("C19")
	r.Rule("for every configuration (code length 4/6 x attempt limit 1/2 x send limit 1/2 x lifetime valid/expired x interval never/always-too-frequent x window never/always refreshed x mock on/off, clock frozen) every sequence of Send / Verify(right|wrong code x right|wrong hash) / Verify with the other pair's credentials over two (area, phone) pairs up to the stated depth on the real logic with a capturing SMS sender, against a per-pair reference (code, hash, attempts, sends); a second pair set whose plain concatenations collide (1,23)/(12,3); a small-cache family (record cache of 1-3 entries, one destination more than entries, sequences of sends and right/wrong verifies: a sent code stays verifiable until CacheSize other destinations were used); the nonce generator driven with every index answer; a hash family (every single-character case/bit/removal/doubling variant and the whole-string case, blank, prefix, suffix, dashed and other-pair variants of the handed-out hash, each with the right code on a fresh logic: refused, and the true hash still verifies afterwards) and the same for the code (every digit replaced by each other digit, blank/sign/zero/NUL/full-width/truncated/doubled/reversed forms with the right hash); distinct = (op, answer) pairs")
	r.Assume("time.Now in vcode/vlogic.go is redirected to a frozen virtual clock (regimes decide every comparison)", "the send-count clause is checked as: sends <= MaxCount accepted, sends > MaxCount+1 refused")
	vtime.NowFn = func() time.Time { return time.Unix(1700000000, 0) }
	var jobs []func()
	depth := r.Pick(5, 6)
	for _, codeLen := range []int{4, 6} {
		for _, mv := range []int{1, 2} {
			for _, mc := range []int{1, 2} {
				for _, ttl := range []bool{true, false} {
					for _, fr := range []bool{false, true} {
						for _, rf := range []bool{false, true} {
							for _, mock := range []bool{true, false} {
								c := cfg{codeLen, mv, mc, ttl, fr, rf, mock}
								for psi, ps := range [][]pair{pairs[:2], pairs[2:]} {
									if psi == 1 && (codeLen == 6 || mv == 2 || !ttl) {
										continue // the colliding-concatenation pairs run on a quarter of the configurations
									}
									c, ps, psi := c, ps, psi
									jobs = append(jobs, func() {
										seq.Explore(r, &seq.Spec[*st]{Name: fmt.Sprintf("vcode/%s/pairs=%d", c, psi), Ops: ops(c, ps), Depth: depth, Sig: sig, MaxViolations: 6,
											New: func() *st {
												cp := &capture{last: map[pair]string{}}
												s := &st{c: c, cap: cp, l: vcode.NewSimpleLogic(c.config(), cp, nil), m: map[pair]*rec{}}
												for _, p := range ps {
													s.m[p] = &rec{}
												}
												return s
											}})
									})
								}
							}
						}
					}
				}
			}
		}
	}
	for _, mock := range []bool{true, false} {
		for _, sz := range []int{1, 2, 3} {
			mock, sz := mock, sz
			np := sz + 1
			jobs = append(jobs, func() {
				seq.Explore(r, &seq.Spec[*smallSt]{Name: fmt.Sprintf("vcode/small-cache/size=%d/destinations=%d/mock=%v", sz, np, mock), Ops: smallOps(smallPairs[:np]), Depth: r.Pick(6, 7) - sz/3, MaxViolations: 6,
					Sig: func(path []string, msg string) string {
						return "a sent code is lost although the cache had room for its destination"
					},
					New: func() *smallSt {
						cp := &capture{last: map[pair]string{}}
						cf := &vcode.Config{CacheSize: int64(sz), Mock: mock, CodeLen: 4, MaxCount: 1000, MaxVerifyCount: 2, TTL: tex.Duration(time.Hour), MinInterval: 0, CounterDuration: tex.Duration(time.Hour)}
						s := &smallSt{l: vcode.NewSimpleLogic(cf, cp, nil), cap: cp, mock: mock, size: sz, m: map[pair]*rec{}, others: map[pair]map[pair]bool{}}
						for _, p := range smallPairs[:np] {
							s.m[p] = &rec{}
							s.others[p] = map[pair]bool{}
						}
						return s
					}})
			})
		}
	}
	jobs = append(jobs, func() { seq.RunFamily(r, seq.Family{Name: "nonce", Run: nonce}) })
	jobs = append(jobs, func() { seq.RunFamily(r, seq.Family{Name: "long-attempt-histories", Run: longHistories}) })
	for _, mock := range []bool{true, false} {
		for _, codeLen := range []int{4, 6} {
			mock, codeLen := mock, codeLen
			jobs = append(jobs, func() {
				seq.RunFamily(r, seq.Family{Name: fmt.Sprintf("hash-and-code-near-misses/mock=%v/len=%d", mock, codeLen), Run: func(c *seq.Ctx) { hashNearMisses(c, []bool{mock}, []int{codeLen}) }})
			})
		}
	}
	seq.Parallel(16, jobs)
	r.Finish()
}
