// C07: snowflake id codec — fields, date-string form and time ranges agree (engine I; one process per layout).
package main

import (
	"fmt"
	"os"
	"sort"
	"time"
	_ "time/tzdata"

	"github.com/pinealctx/neptune/idgen/snowflake"

	"verifh/ev"
	"verifh/mc"
)

type layout struct {
	epoch    int64
	nodeBits uint8
	lowest   bool
}

func (l layout) String() string {
	return fmt.Sprintf("epoch=%d/nodeBits=%d/nodeAtLowest=%v", l.epoch, l.nodeBits, l.lowest)
}

func layouts() []layout {
	var o []layout
	for _, ep := range []int64{946684800000, 1609430400000, time.Date(2021, 6, 15, 12, 34, 56, 789e6, time.UTC).UnixMilli()} {
		for _, nb := range []uint8{8, 9, 10} {
			for _, lo := range []bool{false, true} {
				o = append(o, layout{ep, nb, lo})
			}
		}
	}
	return o
}

func (l layout) shift() uint { return uint(l.nodeBits) + 12 }
func (l layout) maxT() int64 { return int64(1)<<(63-l.shift()) - 1 }

func (l layout) compose(t, node, step int64) int64 {
	if l.lowest {
		return t<<l.shift() | step<<uint(l.nodeBits) | node
	}
	return t<<l.shift() | node<<12 | step
}

var shanghai = time.FixedZone("CST", 8*3600)

// timestamps (ms since the layout's epoch) of the boundary family
func tFamily(l layout, quick bool) []int64 {
	set := map[int64]bool{}
	add := func(t int64) {
		if t >= 0 && t <= l.maxT() {
			set[t] = true
		}
	}
	for _, t := range []int64{0, 1, 2, 999, 1000, 1001, 59999, 60000, 86399999, 86400000, 86400001, l.maxT(), l.maxT() - 1, l.maxT() - 1000} {
		add(t)
	}
	for k := uint(1); k < 63-l.shift(); k++ {
		add(1<<k - 1)
		add(1 << k)
		add(1<<k + 1)
	}
	for y := 2000; y <= 2300; y++ {
		for _, md := range [][2]int{{1, 1}, {2, 28}, {2, 29}, {3, 1}, {6, 30}, {7, 1}, {12, 31}} {
			if quick && y%7 != 0 && md != [2]int{1, 1} {
				continue
			}
			base := time.Date(y, time.Month(md[0]), md[1], 0, 0, 0, 0, shanghai).UnixMilli() - l.epoch
			for _, d := range []int64{-1, 0, 1, 999, 1000} {
				add(base + d)
			}
		}
	}
	anchors := []time.Time{
		time.Date(2021, 1, 1, 0, 0, 0, 0, shanghai), time.Date(2023, 12, 31, 23, 59, 58, 0, shanghai), time.Date(2024, 2, 28, 23, 59, 59, 0, shanghai),
		time.Date(2024, 2, 29, 23, 59, 59, 0, shanghai), time.Date(2038, 1, 19, 11, 14, 6, 0, shanghai), time.Date(2069, 9, 6, 0, 0, 0, 0, shanghai),
		time.Date(2100, 2, 28, 23, 59, 59, 0, shanghai), time.Date(2022, 6, 15, 12, 0, 0, 0, shanghai),
	}
	win := int64(3000)
	if quick {
		win = 1200
	}
	for _, a := range anchors {
		b := a.UnixMilli() - l.epoch
		for d := int64(0); d < win; d++ {
			add(b + d)
		}
	}
	var o []int64
	for t := range set {
		o = append(o, t)
	}
	sort.Slice(o, func(i, j int) bool { return o[i] < o[j] })
	return o
}

func run(r *ev.Run, l layout) {
	t0 := time.Now()
	// the layout is established through the public Setup call (fresh process), options in an order that
	// varies with the layout, and verified through the read-only hook
	opts := []snowflake.Option{snowflake.UseEpoch(time.UnixMilli(l.epoch)), snowflake.UseNodeMode(snowflake.NodeBitsMode(l.nodeBits))}
	if l.lowest {
		opts = append(opts, snowflake.NodeAtLowest())
	}
	rot := int(l.nodeBits) % len(opts)
	ordered := append(append([]snowflake.Option{}, opts[rot:]...), opts[:rot]...)
	// the configuration is reached in stages, one Setup call per option, and the codec is USED between
	// the stages (under the defaults and under every intermediate layout): whatever an earlier layout
	// left behind must not show once the final one is in force
	use := func() {
		for _, id := range []int64{0, 1, 0x7fffffff, 88452840107827209, 1<<62 + 12345} {
			_, _, _ = snowflake.IDFields(id)
			_, _, _ = snowflake.IDParse(id)
			_, _ = snowflake.FromChStyle(snowflake.CnStyle(id))
			_, _ = snowflake.TimeIDRange(time.UnixMilli(1700000000000))
		}
	}
	use()
	for _, o := range ordered {
		snowflake.Setup(o)
		use()
	}
	if e, b, lo := snowflake.VerifConfig(); e != l.epoch || b != l.nodeBits || lo != l.lowest {
		r.Violate(ev.Violation{Signature: "setup: the options do not establish the requested layout", Scenario: "setup/" + l.String(),
			What: fmt.Sprintf("Setup for %s established epoch=%d nodeBits=%d nodeAtLowest=%v", l.String(), e, b, lo)})
	}
	name := "codec/" + l.String()
	nodeMax := int64(1)<<l.nodeBits - 1
	mask := int64(1)<<l.shift() - 1
	var evals int64
	outcomes := map[string]bool{}
	nviol := 0
	fail := func(sig, what string, rp interface{}) {
		nviol++
		r.Violate(ev.Violation{Signature: "codec: " + sig, Scenario: name, What: l.String() + ": " + what, Replay: rp})
	}
	checkID := func(id, t, node, step int64, cn bool) {
		evals++
		tf, nf, sf := snowflake.IDFields(id)
		if tf != t || nf != node || sf != step {
			fail("IDFields does not split an id into the fields it was built from", fmt.Sprintf("IDFields(%d) = (%d,%d,%d), built from (%d,%d,%d)", id, tf, nf, sf, t, node, step), id)
			return
		}
		if l.compose(tf, nf, sf) != id {
			fail("recombining IDFields does not give back the id", fmt.Sprintf("id %d -> (%d,%d,%d) -> %d", id, tf, nf, sf, l.compose(tf, nf, sf)), id)
			return
		}
		ms, n2, s2 := snowflake.IDParse(id)
		tt, n3, s3 := snowflake.IDParseEx(id)
		if ms != t+l.epoch || n2 != node || s2 != step || n3 != node || s3 != step || tt.UnixMilli() != ms || tt.Nanosecond()%1e6 != 0 {
			fail("IDParse/IDParseEx disagree with IDFields", fmt.Sprintf("id %d: IDParse=(%d,%d,%d) IDParseEx=(%v,%d,%d), fields (%d,%d,%d)", id, ms, n2, s2, tt, n3, s3, t, node, step), id)
			return
		}
		if _, off := tt.Zone(); off != 8*3600 {
			fail("IDParseEx does not report Asia/Shanghai time", fmt.Sprintf("id %d: zone offset %d", id, off), id)
			return
		}
		if !cn {
			return
		}
		cs := snowflake.CnStyle(id)
		back, err := snowflake.FromChStyle(cs)
		want := tt.Format("20060102150405.000")
		want = want[:14] + want[15:] + fmt.Sprintf("%07d", id&mask)
		outcomes[fmt.Sprintf("cn/len=%d/ok=%v", len(cs), err == nil && back == id)] = true
		if len(cs) != 24 || err != nil || back != id {
			fail("the 24-character date form does not convert back to the id", fmt.Sprintf("id %d -> CnStyle %q (len %d) -> %d err=%v", id, cs, len(cs), back, err), id)
			return
		}
		if cs != want {
			fail("CnStyle is not 17 digits of Shanghai local time followed by the 7-digit low bits", fmt.Sprintf("id %d -> %q want %q", id, cs, want), id)
		}
	}
	ts := tFamily(l, r.Quick())
	nodes := []int64{0, 1, nodeMax - 1, nodeMax}
	stepsB := []int64{0, 1, 4094, 4095}
	type idt struct{ id, t, low int64 }
	var fam []idt
	for _, t := range ts {
		for _, n := range nodes {
			for _, s := range stepsB {
				id := l.compose(t, n, s)
				checkID(id, t, n, s, true)
				fam = append(fam, idt{id, t, id & mask})
				if nviol > 10 {
					return
				}
			}
		}
	}
	outcomes["fields/boundary"] = true
	// history independence of the date form: FromChStyle of a valid text gives its id whatever was
	// converted before - all ordered pairs (A, B) of ids on different days/times, with every
	// single-position corruption (non-digit at each of the 24 positions), truncation and extension of
	// A's and of B's text (and texts of B's day with A's time) converted in between; a corrupted text
	// gives the same answer wherever in a history it is converted.
	{
		var picks []int64
		seenDay := map[string]bool{}
		for _, f := range fam {
			if f.id <= 0 {
				continue
			}
			cs := snowflake.CnStyle(f.id)
			if len(cs) != 24 || seenDay[cs[:8]] {
				continue
			}
			seenDay[cs[:8]] = true
			picks = append(picks, f.id)
			if len(picks) == 6 {
				break
			}
		}
		corrupt := func(cs string, other string) []string {
			out := []string{cs[:23], cs + "0", "", other[:8] + cs[8:], cs[:8] + other[8:]}
			for pos := 0; pos < len(cs); pos++ {
				for _, ch := range []string{"x", " ", "-"} {
					out = append(out, cs[:pos]+ch+cs[pos+1:])
					out = append(out, other[:8]+(cs[:pos] + ch + cs[pos+1:])[8:])
				}
			}
			return out
		}
		type ans struct {
			v   int64
			err bool
		}
		first := map[string]ans{}
		for _, a := range picks {
			for _, b := range picks {
				if a == b || nviol > 10 {
					continue
				}
				ca, cb := snowflake.CnStyle(a), snowflake.CnStyle(b)
				for _, x := range append(corrupt(cb, ca), corrupt(ca, cb)...) {
					evals++
					if v, e := snowflake.FromChStyle(ca); e != nil || v != a {
						fail("the 24-character date form does not convert back to the id", fmt.Sprintf("FromChStyle(%q) = %d err=%v want %d (start of a 3-call history)", ca, v, e, a), a)
						break
					}
					vx, ex := snowflake.FromChStyle(x)
					if ex != nil {
						vx = 0
					}
					if f, ok := first[x]; !ok {
						first[x] = ans{vx, ex != nil}
					} else if f != (ans{vx, ex != nil}) {
						fail("FromChStyle of one text depends on what was converted before", fmt.Sprintf("FromChStyle(%q) = (%d, refused=%v) after %q but (%d, refused=%v) earlier", x, vx, ex != nil, ca, f.v, f.err), a)
						break
					}
					if v, e := snowflake.FromChStyle(cb); e != nil || v != b {
						fail("FromChStyle of a valid text depends on what was converted before", fmt.Sprintf("after FromChStyle(%q) and FromChStyle(%q) [refused=%v], FromChStyle(%q) = %d err=%v want %d", ca, x, ex != nil, cb, v, e, b), b)
						break
					}
				}
			}
		}
		outcomes[fmt.Sprintf("cn/history/picks=%d", len(picks))] = true
	}
	// calendar sweep: EVERY calendar day (Asia/Shanghai) that the timestamp width reaches from this
	// epoch - its first millisecond, the millisecond before it, and a day-dependent time of day
	e0 := time.UnixMilli(l.epoch).In(shanghai)
	firstMidnight := time.Date(e0.Year(), e0.Month(), e0.Day(), 0, 0, 0, 0, shanghai).UnixMilli() - l.epoch
	days := int64(0)
	for d := int64(0); ; d++ {
		base := firstMidnight + d*86400000
		if base > l.maxT() {
			break
		}
		days++
		mid := ((d%24)*3600+(d%60)*60+(d*7)%60)*1000 + d%1000
		for _, t := range []int64{base - 1, base, base + mid} {
			if t < 0 || t > l.maxT() {
				continue
			}
			checkID(l.compose(t, 0, 0), t, 0, 0, true)
			checkID(l.compose(t, nodeMax, 4095), t, nodeMax, 4095, true)
			if nviol > 10 {
				return
			}
		}
	}
	outcomes[fmt.Sprintf("calendar/days=%d", days)] = true
	// all low bits for a few timestamps
	full := []int64{ts[len(ts)/2]}
	if !r.Quick() {
		full = append(full, 0, l.maxT())
	}
	for _, t := range full {
		for n := int64(0); n <= nodeMax; n++ {
			for s := int64(0); s < 4096; s++ {
				id := l.compose(t, n, s)
				cn := !r.Quick() || (n*4096+s)%61 == 0 || s >= 4094 || s <= 1
				checkID(id, t, n, s, cn)
				if nviol > 10 {
					return
				}
			}
		}
		if r.Expired() {
			break
		}
	}
	outcomes["fields/all-low-bits"] = true
	// order: ids order exactly as (timestamp, remaining bits)
	sort.Slice(fam, func(i, j int) bool { return fam[i].id < fam[j].id })
	for i := 1; i < len(fam); i++ {
		a, b := fam[i-1], fam[i]
		evals++
		ta, _, _ := snowflake.IDFields(a.id)
		tb, _, _ := snowflake.IDFields(b.id)
		if a.id == b.id {
			continue
		}
		if !(ta < tb || (ta == tb && a.low < b.low)) {
			fail("id order differs from (timestamp, remaining bits) order", fmt.Sprintf("ids %d < %d but fields (%d,%d) vs (%d,%d)", a.id, b.id, ta, a.low, tb, b.low), []int64{a.id, b.id})
			break
		}
	}
	outcomes["order"] = true
	// time ranges
	var instants []time.Time
	secs := map[int64]bool{}
	for i, t := range ts {
		if i%97 == 0 || t < 2000 || t > l.maxT()-3000 {
			secs[(t+l.epoch)/1000] = true
		}
	}
	var secList []int64
	for s := range secs {
		secList = append(secList, s)
	}
	sort.Slice(secList, func(i, j int) bool { return secList[i] < secList[j] })
	if r.Quick() && len(secList) > 40 {
		var thin []int64
		for i, s := range secList {
			if i%(len(secList)/40+1) == 0 || i < 4 || i > len(secList)-4 {
				thin = append(thin, s)
			}
		}
		secList = thin
	}
	for _, s := range secList {
		for _, ms := range []int64{0, 1, 999} {
			instants = append(instants, time.Unix(s, ms*1e6))
		}
	}
	// ids probed against each range: around the endpoints
	for bi, b := range instants {
		for ei := bi; ei < len(instants); ei++ {
			e := instants[ei]
			B := b.Unix()*1000 - l.epoch
			E := e.Unix()*1000 - l.epoch
			if B < 0 || E > l.maxT() || E < 0 {
				continue
			}
			min, max := snowflake.TimeBetweenID(b, e)
			evals++
			probe := func(t int64) {
				if t < 0 || t > l.maxT() {
					return
				}
				for _, low := range []int64{0, 1, mask - 1, mask} {
					id := t<<l.shift() | low
					in := id >= min && id <= max
					switch {
					case t >= B && t <= E && !in:
						fail("TimeBetweenID excludes an id whose timestamp lies between the second-truncated endpoints", fmt.Sprintf("begin %v end %v: range [%d,%d] misses id %d (timestamp %d in [%d,%d])", b.UTC(), e.UTC(), min, max, id, t, B, E), nil)
					case (t < B || t >= E+1000) && in:
						fail("TimeBetweenID includes an id outside the endpoints' seconds", fmt.Sprintf("begin %v end %v: range [%d,%d] holds id %d (timestamp %d outside [%d,%d+999])", b.UTC(), e.UTC(), min, max, id, t, B, E), nil)
					}
				}
			}
			for _, t := range []int64{B - 1000, B - 1, B, B + 1, (B + E) / 2, E - 1, E, E + 1000, E + 1001, E + 86400000} {
				probe(t)
			}
			if bi == ei {
				mn, mx := snowflake.TimeIDRange(b)
				if mn != min || mx != max {
					fail("TimeIDRange(t) differs from TimeBetweenID(t,t)", fmt.Sprintf("t=%v: [%d,%d] vs [%d,%d]", b.UTC(), mn, mx, min, max), nil)
				}
			}
			if nviol > 10 {
				return
			}
		}
	}
	outcomes["ranges"] = true
	// location independence: the ranges are functions of the INSTANTS; the same instants presented in
	// other Locations (fixed odd offsets, zones with daylight saving - around every transition of
	// 2022-2024: the repeated hour, the skipped hour, both sides) give the same ranges
	var locs []*time.Location
	for _, zn := range []string{"UTC", "Asia/Shanghai", "America/New_York", "Europe/London", "Australia/Lord_Howe", "America/St_Johns", "Asia/Kathmandu", "Pacific/Apia", "Africa/Casablanca"} {
		if lc, err := time.LoadLocation(zn); err == nil {
			locs = append(locs, lc)
		}
	}
	locs = append(locs, time.FixedZone("odd", 3600+17), time.FixedZone("west", -12*3600+1))
	var li []time.Time
	from := time.Date(2022, 1, 1, 0, 0, 0, 0, time.UTC)
	for _, lc := range locs {
		_, prev := from.In(lc).Zone()
		for h := 0; h < 3*366*24 && len(li) < 4000; h++ {
			t := from.Add(time.Duration(h) * time.Hour)
			if _, off := t.In(lc).Zone(); off != prev {
				prev = off
				// the transition lies in (t-1h, t]; sample densely around it
				for _, d := range []time.Duration{-2 * time.Hour, -time.Hour - time.Second, -time.Hour, -30 * time.Minute, -time.Second, 0, time.Second, 29 * time.Minute, 30 * time.Minute, time.Hour - time.Second, time.Hour, time.Hour + time.Second, 2 * time.Hour} {
					li = append(li, t.Add(d).Add(123*time.Millisecond))
				}
			}
		}
	}
	li = append(li, from.Add(12345678*time.Second), from.Add(500*24*time.Hour+999*time.Millisecond))
	nloc := int64(0)
	for i, t := range li {
		if t.UnixMilli()-l.epoch < 0 || t.UnixMilli()-l.epoch > l.maxT()-86400000 {
			continue
		}
		e := li[(i*7+3)%len(li)]
		if e.Before(t) {
			t, e = e, t
		}
		if t.UnixMilli()-l.epoch < 0 || e.UnixMilli()-l.epoch > l.maxT()-86400000 {
			continue
		}
		r1a, r1b := snowflake.TimeIDRange(t.UTC())
		b1a, b1b := snowflake.TimeBetweenID(t.UTC(), e.UTC())
		for k, lc := range locs {
			evals++
			nloc++
			r2a, r2b := snowflake.TimeIDRange(t.In(lc))
			b2a, b2b := snowflake.TimeBetweenID(t.In(lc), e.In(locs[(k+1)%len(locs)]))
			if r1a != r2a || r1b != r2b {
				fail("TimeIDRange depends on the Location the instant is presented in", fmt.Sprintf("instant %v: [%d,%d] as UTC, [%d,%d] as %v", t.UTC(), r1a, r1b, r2a, r2b, t.In(lc)), nil)
			}
			if b1a != b2a || b1b != b2b {
				fail("TimeBetweenID depends on the Location the instants are presented in", fmt.Sprintf("instants %v .. %v: [%d,%d] as UTC, [%d,%d] as %v .. %v", t.UTC(), e.UTC(), b1a, b1b, b2a, b2b, t.In(lc), e.In(locs[(k+1)%len(locs)])), nil)
			}
			if nviol > 10 {
				return
			}
		}
	}
	outcomes[fmt.Sprintf("locations/%d", len(locs))] = true
	r.Sample(map[string]interface{}{"layout": l.String(), "id": fam[len(fam)/2].id, "cn": snowflake.CnStyle(fam[len(fam)/2].id)})
	r.AddPart(ev.Part{Name: name, Evaluations: evals, States: int64(len(fam)), Transitions: evals, Outcomes: int64(len(outcomes)), Exhaustive: !r.Expired(), Blocked: true,
		Bound: fmt.Sprintf("%d boundary timestamps x 16 (node,step) corners; every one of the %d calendar days in range x 3 instants x 2 corners; all 2^%d low-bit values for %d timestamps; %d instants pairwise for ranges", len(ts), days, l.shift(), len(full), len(instants)), WallS: time.Since(t0).Seconds()})
}

func main() {
	r := ev.Start("C07")
	r.Rule("per layout (node bits 8/9/10 x node-at-lowest x three epochs, one process each): ids built from a boundary timestamp family (0,1,999..,2^k±1,max, calendar boundaries ±1ms 2000-2300, every millisecond of windows at 8 anchor dates) x (node,step) corners, EVERY calendar day the timestamp width reaches (first ms, the ms before, a day-dependent time of day), and ALL low-bit values for 1 (quick) / 3 (thorough) timestamps: IDFields/recombine, IDParse/IDParseEx, CnStyle/FromChStyle (also as 3-call histories: valid text of one day, every single-position corruption / truncation / extension / day-time splice of a text, valid text of another day - all ordered pairs of 6 days), order of adjacent ids; TimeBetweenID/TimeIDRange for all ordered pairs of boundary instants with ids probed around both endpoints; the same instants presented in 11 Locations (fixed odd offsets, daylight-saving zones around every transition of 2022-2024) give the same ranges")
	r.Assume("Asia/Shanghai is UTC+8 without DST from 2000 on", "instants at or after the epoch whose offset fits the timestamp width")
	ls := layouts()
	if r.Shard != "" {
		var k int
		fmt.Sscanf(r.Shard, "%d", &k)
		if k < len(ls) {
			run(r, ls[k])
		}
		r.EmitWorker()
		return
	}
	if nd := mc.Drive(r, os.Args[0], len(ls)); nd != "" {
		fmt.Println("worker failure:", nd)
		r.Finish0(2)
	}
	r.Finish()
}
