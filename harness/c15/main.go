// C15: mux worker group — write-through cache stays coherent with the store (engine S with fault enumeration).
package main

import (
	"context"
	"errors"
	"fmt"

	"github.com/pinealctx/neptune/syncx/pipe/mux"
	"github.com/pinealctx/neptune/zverif/vsync"

	"verifh/ev"
	"verifh/mc"
	_ "verifh/quiet"
	"verifh/vctx"
)

var (
	errNotFound = errors.New("store: not found")
	errDup      = errors.New("store: duplicate")
	errInjected = errors.New("store: injected failure")
)

// sv is the value type handed to the group; it reports a size (cache.Value), so that an LRU facade
// counts it: in "sized" configurations every second value is bigger than the whole LRU capacity.
type sv string

var bigValues bool

func (s sv) Size() int {
	if bigValues && len(s) > 0 && (s[len(s)-1]-'0')%2 == 0 {
		return 3
	}
	return 1
}

// store is the instrumented backing store.
type store struct {
	w      *mc.World
	m      map[mux.Int]interface{} // a stored value may be the untyped nil (a "known absent" marker the group caches like any value)
	inside map[mux.Int]int         // callbacks currently inside, per key
	calls  []string                // store callbacks in the order they ran: "add(k)=v" …
	loads  map[mux.Int]int
	faults bool
	nfault int
}

func (s *store) enter(k mux.Int, what string) bool {
	s.w.Touch()
	s.inside[k]++
	if s.inside[k] > 1 {
		s.w.Failf("two store operations on key %d overlap (%s entered while another is inside)", k, what)
	}
	vsync.Yield()
	s.w.Touch()
	fail := false
	if s.faults && vsync.Choose(2) == 1 {
		fail = true
		s.nfault++
	}
	return fail
}

func (s *store) exit(k mux.Int, rec string) {
	s.calls = append(s.calls, rec)
	s.inside[k]--
}

func (s *store) load(ctx context.Context, d interface{}) (interface{}, error) {
	k := d.(mux.Int)
	s.loads[k]++
	if s.enter(k, "load") {
		s.exit(k, fmt.Sprintf("load(%d)=FAIL", k))
		return nil, errInjected
	}
	v, ok := s.m[k]
	if !ok {
		s.exit(k, fmt.Sprintf("load(%d)=notfound", k))
		return nil, errNotFound
	}
	s.exit(k, fmt.Sprintf("load(%d)", k))
	return v, nil
}

type rec struct {
	k mux.Int
	v interface{}
}

func (s *store) add(ctx context.Context, d interface{}) (interface{}, error) {
	r := d.(rec)
	if s.enter(r.k, "add") {
		s.exit(r.k, fmt.Sprintf("add(%d)=FAIL", r.k))
		return nil, errInjected
	}
	if _, ok := s.m[r.k]; ok {
		s.exit(r.k, fmt.Sprintf("add(%d)=dup", r.k))
		return nil, errDup
	}
	s.m[r.k] = r.v
	s.exit(r.k, fmt.Sprintf("add(%d)=%v", r.k, r.v))
	return r.v, nil
}

func (s *store) update(ctx context.Context, d interface{}, pre interface{}) (interface{}, error) {
	r := d.(rec)
	if s.enter(r.k, "update") {
		s.exit(r.k, fmt.Sprintf("update(%d)=FAIL", r.k))
		return nil, errInjected
	}
	if _, ok := s.m[r.k]; !ok {
		s.exit(r.k, fmt.Sprintf("update(%d)=notfound", r.k))
		return nil, errNotFound
	}
	if pre != nil && pre != s.m[r.k] {
		s.w.Failf("update of key %d was handed the previous value %v but the store holds %v (stale cache)", r.k, pre, s.m[r.k])
	}
	s.m[r.k] = r.v
	s.exit(r.k, fmt.Sprintf("update(%d)=%s", r.k, r.v))
	return r.v, nil
}

func (s *store) upsert(ctx context.Context, d interface{}, pre interface{}) (interface{}, error) {
	r := d.(rec)
	if s.enter(r.k, "upsert") {
		s.exit(r.k, fmt.Sprintf("upsert(%d)=FAIL", r.k))
		return nil, errInjected
	}
	if pre != nil && pre != s.m[r.k] {
		s.w.Failf("upsert of key %d was handed the previous value %v but the store holds %v (stale cache)", r.k, pre, s.m[r.k])
	}
	s.m[r.k] = r.v
	s.exit(r.k, fmt.Sprintf("upsert(%d)=%s", r.k, r.v))
	return r.v, nil
}

func (s *store) del(ctx context.Context, d interface{}) error {
	k := d.(mux.Int)
	if s.enter(k, "delete") {
		s.exit(k, fmt.Sprintf("delete(%d)=FAIL", k))
		return errInjected
	}
	delete(s.m, k)
	s.exit(k, fmt.Sprintf("delete(%d)", k))
	return nil
}

func isNotFound(err error) bool { return err == errNotFound }

type world struct {
	w         *mc.World
	g         *mux.WorkerGrp
	s         *store
	inflight  map[mux.Int]int
	epoch     map[mux.Int]int // bumped whenever an operation on the key starts or returns
	nval      int
	keys      []mux.Int
	nilValues bool
}

var opNames = []string{"Get", "Add", "Update", "Delete", "UpdOrAdd", "UpsertThenLoad", "UpsertThenRenew"}

// peek reads the cache entry of k without taking a schedule point; valid=false if the cache lock is
// held at this instant (the observation is skipped then).
func (x *world) peek(k mux.Int) (v interface{}, ok bool, valid bool) {
	valid = x.w.S.Inspect(func() { v, ok = mux.VerifCachePeek(x.g, k) })
	return
}

// do issues one operation and checks what the statement says about its own result.
func (x *world) do(op int, k mux.Int, ctx context.Context) string {
	w := x.w
	w.Touch()
	x.nval++
	var v interface{} = sv(fmt.Sprintf("v%d", x.nval))
	if x.nilValues && x.nval%2 == 1 {
		v = nil // every second value written is the untyped nil
	}
	x.inflight[k]++
	x.epoch[k]++
	e0 := x.epoch[k]
	aloneAtStart := x.inflight[k] == 1
	cachedBefore := false
	if _, ok, valid := x.peek(k); valid && ok && x.inflight[k] == 1 {
		cachedBefore = true
	}
	callsBefore := len(x.s.calls)
	var res interface{}
	var err error
	switch op {
	case 0:
		res, err = x.g.DoGet(ctx, x.s.load, k)
	case 1:
		res, err = x.g.DoAdd(ctx, x.s.add, k, rec{k, v})
	case 2:
		res, err = x.g.DoUpdate(ctx, x.s.load, x.s.update, k, rec{k, v})
	case 3:
		res, err = x.g.DoDelete(ctx, x.s.del, k)
	case 4:
		res, err = x.g.DoUpdOrAddIfNull(ctx, x.s.load, x.s.update, x.s.add, isNotFound, k, rec{k, v})
	case 5:
		res, err = x.g.DoUpsertThenLoad(ctx, x.s.upsert, x.s.load, k, rec{k, v})
	case 6:
		res, err = x.g.DoUpsertThenRenewInCache(ctx, x.s.upsert, k, rec{k, v})
	}
	w.Touch()
	x.inflight[k]--
	alone := x.inflight[k] == 0
	// undisturbed: no other operation on this key started, ran or returned during this one
	undisturbed := aloneAtStart && alone && x.epoch[k] == e0
	x.epoch[k]++
	if op == 1 && cachedBefore && undisturbed {
		// add on a cached key: rejected as duplicate without touching the store
		if err != mux.ErrDupKey {
			w.Failf("Add(%d) on a cached key returned %v, want the duplicate-key error", k, err)
		}
		for _, c := range x.s.calls[callsBefore:] {
			if len(c) > 4 && c[:4] == "add(" {
				w.Failf("Add(%d) on a cached key still called the store (%s)", k, c)
			}
		}
	}
	if op == 3 && err == nil && undisturbed {
		if _, ok, valid := x.peek(k); valid && ok {
			w.Failf("Delete(%d) succeeded but the cache still holds an entry for the key", k)
		}
	}
	if op == 0 && undisturbed && err == nil {
		if sv, has := x.s.m[k]; !has || res != sv {
			w.Failf("Get(%d) returned %v while the store holds %v (present=%v) and no other operation on the key was in flight", k, res, sv, has)
		}
	}
	if alone {
		x.coherent(k, opNames[op])
	}
	if err != nil {
		return fmt.Sprintf("%s(%d)=err", opNames[op], k)
	}
	return fmt.Sprintf("%s(%d)=%v", opNames[op], k, res)
}

// coherent: if the cache holds a value for k it equals the store's.
func (x *world) coherent(k mux.Int, after string) {
	cv, ok, valid := x.peek(k)
	if !ok || !valid {
		return
	}
	sv, has := x.s.m[k]
	if !has || cv != interface{}(sv) {
		x.w.Failf("after %s on key %d the cache holds %v but the store holds %v (present=%v); store calls so far %v", after, k, cv, sv, has, x.s.calls)
	}
}

type cfg struct {
	name string
	lru  int64 // 0: map cache
	size int
	keys []mux.Int
	big  bool // every second value is bigger than the whole LRU
	nils bool // every second value written is the untyped nil
	deep int  // queue depth per worker (0: 8)
}

func newWorld(w *mc.World, c cfg, faults bool) *world {
	var g *mux.WorkerGrp
	bigValues = c.big
	deep := 8
	if c.deep > 0 {
		deep = c.deep
	}
	if c.lru > 0 {
		g = mux.NewWorkGrpWithLRU(c.lru, mux.WithSize(c.size), mux.WithDeep(deep))
	} else {
		g = mux.NewWorkGrpWithMapCache(mux.WithSize(c.size), mux.WithDeep(deep))
	}
	s := &store{w: w, m: map[mux.Int]interface{}{}, inside: map[mux.Int]int{}, loads: map[mux.Int]int{}, faults: faults}
	x := &world{w: w, g: g, s: s, inflight: map[mux.Int]int{}, epoch: map[mux.Int]int{}, keys: c.keys, nilValues: c.nils}
	w.Data["x"] = x
	g.Start()
	return x
}

func (x *world) finish() {
	w := x.w
	w.Touch()
	x.g.Stop()
	if err := x.g.WaitStop(vctx.New()); err != nil {
		w.Failf("WaitStop: %v", err)
	}
	w.Touch()
	for _, k := range x.keys {
		x.coherent(k, "the end of the run")
		if n := x.s.inside[k]; n != 0 {
			w.Failf("a store callback for key %d never returned", k)
		}
	}
}

// concurrent programs: each thread runs a fixed list of (op, key)
type step struct {
	op int
	k  mux.Int
}

func concurrent(c cfg, name string, threads [][]step, seed []step, faults bool, pb [2]int, dev [2]int) *mc.Scenario {
	fb := [2]int{0, 0}
	if c.size > 1 {
		fb = [2]int{3, 5}
	}
	return &mc.Scenario{Name: fmt.Sprintf("%s/%s/faults=%v", c.name, name, faults), PB: pb, Dev: dev, FB: fb,
		Main: func(w *mc.World) {
			x := newWorld(w, c, false)
			for _, s := range seed {
				x.do(s.op, s.k, vctx.New())
			}
			x.s.faults = faults
			for ti, steps := range threads {
				steps := steps
				w.Go(fmt.Sprintf("caller%d", ti), func() {
					for _, s := range steps {
						w.Obs("%s", x.do(s.op, s.k, vctx.New()))
					}
				})
			}
			w.Join()
			x.s.faults = false
			x.finish()
		},
		Invariant: func(w *mc.World) error {
			xi, ok := w.Data["x"]
			if !ok {
				return nil
			}
			x := xi.(*world)
			for _, k := range x.keys {
				for _, h := range mux.VerifCacheHolders(x.g, k) {
					if h != mux.VerifWorkerOf(x.g, k) {
						return fmt.Errorf("worker %d holds a cache entry for key %d, which is served by worker %d: writes and deletes of the key will never renew or drop that copy", h, k, mux.VerifWorkerOf(x.g, k))
					}
				}
				if x.inflight[k] == 0 {
					cv, ok := mux.VerifCachePeek(x.g, k)
					if ok {
						sv, has := x.s.m[k]
						if !has || cv != sv {
							return fmt.Errorf("no operation on key %d is in flight, the cache holds %v but the store holds %v (present=%v); store calls %v", k, cv, sv, has, x.s.calls)
						}
					}
				}
			}
			return nil
		}}
}

// acceptance order: one thread issues three operations on one key with an already-ended context (each
// returns at once, the operation stays queued); the store must see them in that order
func ordered(c cfg) *mc.Scenario {
	k := c.keys[0]
	return &mc.Scenario{Name: c.name + "/accept-order", PB: [2]int{2, 3},
		Main: func(w *mc.World) {
			x := newWorld(w, c, false)
			g, s := x.g, x.s
			x.inflight[k] += 3 // the three queued operations stay in flight until the workers have drained
			_, _ = g.DoAdd(vctx.Canceled(), s.add, k, rec{k, sv("A")})
			_, _ = g.DoUpdate(vctx.Canceled(), s.load, s.update, k, rec{k, sv("B")})
			_, _ = g.DoUpsertThenRenewInCache(vctx.Canceled(), s.upsert, k, rec{k, sv("C")})
			w.Go("late", func() { w.Obs("%s", x.do(0, k, vctx.New())) })
			w.Join()
			x.finish()
			x.inflight[k] -= 3
			want := fmt.Sprintf("[add(%d)=A update(%d)=B upsert(%d)=C]", k, k, k)
			var writes []string // a Get that finds the key evicted (oversized value) loads; loads do not change the store
			for _, c := range s.calls {
				if len(c) < 5 || c[:5] != "load(" {
					writes = append(writes, c)
				}
			}
			if got := fmt.Sprint(writes); got != want {
				w.Failf("operations on key %d were accepted in the order add, update, upsert but applied to the store as %s", k, got)
			}
			if s.m[k] != interface{}(sv("C")) {
				w.Failf("store ends with %q, want C", s.m[k])
			}
		}}
}

// sequential driver: every sequence of `depth` operations over the keys, chosen by the explorer, with
// every placement of up to `dev` injected store failures
func sequential(c cfg, depth int, dev [2]int) *mc.Scenario {
	return &mc.Scenario{Name: fmt.Sprintf("%s/all-sequences/depth=%d", c.name, depth), PB: [2]int{0, 0}, Dev: dev,
		Main: func(w *mc.World) {
			x := newWorld(w, c, true)
			for i := 0; i < depth; i++ {
				n := vsync.ChooseFree(7 * len(c.keys))
				w.Obs("%s", x.do(n%7, c.keys[n/7], vctx.New()))
			}
			x.s.faults = false
			x.finish()
		}}
}

// optionsScenario: worker-count options of one group do not reach the next one (all ordered pairs of
// {default, 2, 3} workers x map/LRU facade; the worker count is read off the routing of keys 0..400)
func optionsScenario() *mc.Scenario {
	return &mc.Scenario{Name: "constructors/options-do-not-leak-between-groups", PB: [2]int{0, 0}, NoStateCache: true, ProcessState: true, Horizon: 4000000,
		Main: func(w *mc.World) {
			mk := func(size int, lru bool) (*mux.WorkerGrp, int) {
				var opts []mux.Option
				want := mux.DefaultMuxSize
				if size > 0 {
					opts, want = append(opts, mux.WithSize(size)), size
				}
				if lru {
					return mux.NewWorkGrpWithLRU(4, opts...), want
				}
				return mux.NewWorkGrpWithMapCache(opts...), want
			}
			workers := func(g *mux.WorkerGrp) int {
				mx := 0
				for k := 0; k <= 400; k++ {
					if i := mux.VerifWorkerOf(g, mux.Int(k)); i+1 > mx {
						mx = i + 1
					}
				}
				return mx
			}
			n := 0
			for _, a := range []int{0, 2, 3} {
				for _, b := range []int{0, 2, 3} {
					for _, lru := range []bool{false, true} {
						ga, wa := mk(a, lru)
						gb, wb := mk(b, !lru)
						if got := workers(gb); got != wb {
							w.Failf("a group configured for %d workers (0 = default %d) built after one with %d routes keys to %d workers", b, mux.DefaultMuxSize, a, got)
						}
						if got := workers(ga); got != wa {
							w.Failf("a group configured for %d workers routes keys to %d workers after another group with %d was built", a, got, b)
						}
						n++
					}
				}
			}
			w.Obs("pairs=%d", n)
		}}
}

// hashScenario: routing starts with key.HashedInt() on the CALLER's goroutine; two callers hashing keys
// at the same time (statement-level interleavings inside the hashing code) must each get the value a
// lone caller gets - otherwise operations on one key reach two workers and the per-key order and the
// cache coherence are gone.  Every key type of the package, two values each.
func hashScenarios() []*mc.Scenario {
	type kv struct {
		name string
		a, b mux.Hashed2Int
	}
	keys := []kv{
		{"Byte", mux.Byte(1), mux.Byte(200)}, {"Int8", mux.Int8(-3), mux.Int8(77)}, {"Int16", mux.Int16(-300), mux.Int16(777)}, {"UInt16", mux.UInt16(3), mux.UInt16(60000)},
		{"Int32", mux.Int32(-5), mux.Int32(1 << 30)}, {"UInt32", mux.UInt32(5), mux.UInt32(1 << 31)}, {"Int64", mux.Int64(-9), mux.Int64(1 << 40)}, {"UInt64", mux.UInt64(9), mux.UInt64(1 << 63)},
		{"Int", mux.Int(11), mux.Int(-12)}, {"UInt", mux.UInt(13), mux.UInt(1 << 62)},
		{"Int32CRC", mux.Int32CRC(21), mux.Int32CRC(-22)}, {"UInt32CRC", mux.UInt32CRC(23), mux.UInt32CRC(1 << 31)},
		{"Int64CRC", mux.Int64CRC(31), mux.Int64CRC(-32)}, {"UInt64CRC", mux.UInt64CRC(33), mux.UInt64CRC(1 << 63)},
		{"IntCRC", mux.IntCRC(41), mux.IntCRC(-42)}, {"UIntCRC", mux.UIntCRC(43), mux.UIntCRC(1 << 62)},
		{"String", mux.String("alpha"), mux.String("beta-longer")}, {"Bytes", mux.Bytes("gamma"), mux.Bytes("delta-longer")},
		{"mixed Int64CRC/UIntCRC", mux.Int64CRC(51), mux.UIntCRC(52)}, {"mixed Int32CRC/Int64CRC", mux.Int32CRC(61), mux.Int64CRC(62)},
	}
	var scs []*mc.Scenario
	for _, k := range keys {
		k := k
		scs = append(scs, &mc.Scenario{Name: "routing/concurrent-hashing-of-keys/" + k.name + "/fine", PB: [2]int{2, 3}, Fine: true, Main: func(w *mc.World) {
			{
				wa, wb := k.a.HashedInt(), k.b.HashedInt()
				var ga, gb int
				t1 := w.Go("hash-a", func() { ga = k.a.HashedInt() })
				t2 := w.Go("hash-b", func() { gb = k.b.HashedInt() })
				w.Join(t1, t2)
				w.Touch()
				if ga != wa || gb != wb {
					w.Failf("%s keys hashed by two callers at once: HashedInt = %d and %d, a lone caller gets %d and %d - the operation would be routed to another worker's queue", k.name, ga, gb, wa, wb)
				}
			}
		}})
	}
	return scs
}

func scenarios(r *ev.Run) []*mc.Scenario {
	cfgs := []cfg{
		{"map/workers=1", 0, 1, []mux.Int{1, 2}, false, false, 0},
		{"map/workers=2", 0, 2, []mux.Int{1, 3}, false, false, 0}, // 1 and 3 share worker 1
		{"map/workers=2/two-workers", 0, 2, []mux.Int{1, 2}, false, false, 0},
		{"lru=1/workers=1", 1, 1, []mux.Int{1, 2}, false, false, 0},
		{"lru=2/workers=1", 2, 1, []mux.Int{1, 2}, false, false, 0},
		{"lru=2/workers=1/oversized-values", 2, 1, []mux.Int{1, 2}, true, false, 0},
		{"map/workers=1/nil-values", 0, 1, []mux.Int{1, 2}, false, true, 0},
		{"map/workers=1/queue-depth=1", 0, 1, []mux.Int{1, 2}, false, false, 1}, // a third concurrent operation is refused (queue full)
		{"map/workers=2/queue-depth=1", 0, 2, []mux.Int{1, 3}, false, false, 1},
	}
	scs := append([]*mc.Scenario{optionsScenario()}, hashScenarios()...)
	for ci, c := range cfgs {
		k1, k2 := c.keys[0], c.keys[1]
		seed := []step{{1, k1}} // key 1 added and cached
		pb := [2]int{1, 2}
		if c.size > 1 {
			pb = [2]int{1, 1}
		}
		// the variant configurations (oversized / nil values, queue depth 1) run the heaviest programs in
		// the thorough tier only
		variant := ci >= 5 && r.Quick()
		if ci != 2 { // the two-workers configuration differs from workers=2 only for programs that use both keys
			scs = append(scs,
				concurrent(c, "update|delete|get", [][]step{{{2, k1}}, {{3, k1}}, {{0, k1}}}, seed, true, pb, [2]int{1, 1}),
				concurrent(c, "upsertload|update|get", [][]step{{{5, k1}}, {{2, k1}}, {{0, k1}}}, nil, true, pb, [2]int{1, 1}),
				concurrent(c, "add|add|delete", [][]step{{{1, k1}}, {{1, k1}}, {{3, k1}}}, nil, true, pb, [2]int{1, 1}),
			)
			if !variant {
				scs = append(scs,
					concurrent(c, "updoradd|upsertrenew|get,get", [][]step{{{4, k1}}, {{6, k1}}, {{0, k1}, {0, k1}}}, nil, true, [2]int{1, 1}, [2]int{1, 1}),
					// the same programs without injected failures go one preemption deeper
					concurrent(c, "update|delete|get", [][]step{{{2, k1}}, {{3, k1}}, {{0, k1}}}, seed, false, [2]int{2, 3}, [2]int{0, 0}),
					concurrent(c, "add|add|delete", [][]step{{{1, k1}}, {{1, k1}}, {{3, k1}}}, nil, false, [2]int{2, 3}, [2]int{0, 0}),
				)
			} else {
				scs = append(scs, concurrent(c, "updoradd|upsertrenew|get", [][]step{{{4, k1}}, {{6, k1}}, {{0, k1}}}, nil, true, [2]int{1, 1}, [2]int{1, 1}))
			}
			if c.deep == 1 { // four callers on one key: the worker's queue is exactly full when the later ones arrive
				scs = append(scs, concurrent(c, "saturation/get|get|get|delete,get", [][]step{{{0, k1}}, {{0, k1}}, {{0, k1}}, {{3, k1}, {0, k1}}}, seed, false, [2]int{0, 1}, [2]int{0, 0}))
			}
			if c.deep == 0 { // the acceptance-order program queues three operations at once
				scs = append(scs, ordered(c))
			}
		}
		scs = append(scs,
			concurrent(c, "two-keys/update(k1),get(k2)|add(k2),delete(k1)", [][]step{{{2, k1}, {0, k2}}, {{1, k2}, {3, k1}}}, seed, true, pb, [2]int{1, 1}),
			sequential(c, r.Pick(3, 4), [2]int{1, 2}),
		)
	}
	return scs
}

func main() {
	r := ev.Start("C15")
	r.Rule("every interleaving (preemption bound as stated) of 2-3 callers issuing get/add/update/delete/update-or-add/upsert-then-load/upsert-then-renew on colliding keys, the instrumented in-memory store deciding by explorer choice whether each callback fails (fault budget 1 quick / 2 thorough, failure = store unchanged), for map and LRU caches and 1-2 workers; plus ALL operation sequences of length 3 quick / 4 thorough over two keys with every placement of the injected failures; oracles: no two store callbacks of one key overlap, accepted order = store order, whenever no operation on a key is in flight the cached value equals the store's (checked at every scheduling decision and after every operation), successful delete leaves no cache entry, add on a cached key = duplicate error without a store call, only the worker that serves a key ever caches it, an undisturbed Get returns the store's value; variant configurations: values bigger than the LRU, nil values, queue depth 1 with one and two workers (four callers saturating the queue)")
	r.Assume("a failing store callback leaves the store unchanged", "cache contents are observed through the overlay hook VerifCachePeek")
	mc.Main(r, scenarios(r))
}
