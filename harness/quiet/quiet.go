// Package quiet replaces neptune's default logger by a no-op (logging is not part of any property and
// would otherwise dominate the output).
package quiet

import (
	"github.com/pinealctx/neptune/ulog"
	"go.uber.org/zap"
)

func init() { ulog.SetDefaultLogger(&ulog.Logger{Logger: zap.NewNop()}) }
