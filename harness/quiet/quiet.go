// Package quiet replaces neptune's default logger by one that writes nowhere (logging is not part of any
// property and would otherwise dominate the output).  It is a complete logger - its level can be read
// and set (ulog.SetLogLevel) - so code that consults the level behaves as in production.
package quiet

import (
	"github.com/pinealctx/neptune/ulog"
	"go.uber.org/zap"
	"go.uber.org/zap/zapcore"
)

func init() {
	ulog.SetDefaultLogger(ulog.NewSimpleLogger("debug", zap.WrapCore(func(zapcore.Core) zapcore.Core { return zapcore.NewNopCore() })))
}
