// C12: queues — FIFO/priority order, capacity, and close semantics (engine H).
package main

import (
	"fmt"
	"math"
	"sort"
	"strings"

	"github.com/pinealctx/neptune/queue/priq"
	"github.com/pinealctx/neptune/queue/syncq"
	"github.com/pinealctx/neptune/syncx/pipe/async"
	"github.com/pinealctx/neptune/syncx/pipe/mq"
	"github.com/pinealctx/neptune/syncx/pipe/mux"
	"github.com/pinealctx/neptune/syncx/pipe/q"

	"verifh/ev"
	"verifh/seq"
)

// ---- adapter: results are normalised to "ok", "closed", "full", or the raw error text ----

type adapter struct {
	add, addPrior, addCtrl, addPriorCtrl func(v int) string
	pop, popAnyway                       func() (int, string)
	tryPop                               func() (int, bool, bool) // value, hasValue, ok
	close                                func()
	tryClose, tryClear                   func() bool
	isClosed, isCleared                  func() bool
	length                               func() int
}

func norm(err error, closed, full error, full2 error) string {
	switch {
	case err == nil:
		return "ok"
	case err == closed:
		return "closed"
	case err == full || (full2 != nil && err == full2):
		return "full"
	}
	return "ERR:" + err.Error()
}

func val(v interface{}, err error, closed error) (int, string) {
	if err != nil {
		return 0, norm(err, closed, nil, nil)
	}
	i, ok := v.(int)
	if !ok {
		return 0, fmt.Sprintf("ERR:non-item value %v", v)
	}
	return i, "ok"
}

// ---- model ----

type model struct {
	kind            string // pipe | mq | syncq | priq
	ctrl, req       []int
	pri             []pitem
	closed, cleared bool
	capCtrl, capReq int
	seqNo           int
}

type pitem struct{ v, p, seq int }

type state struct {
	a    *adapter
	m    *model
	next int
}

func (s *state) token() int { s.next++; return s.next }

type pent struct{ p, v int }

// priority alphabet of the priority queue (index = last digit of the token)
var priOf = []int{0, 1, 2, math.MinInt, math.MaxInt}

func (e pent) GetPriority() int { return e.p }

func (m *model) size() int { return len(m.ctrl) + len(m.req) + len(m.pri) }

func (m *model) front() (int, bool) {
	if len(m.ctrl) > 0 {
		return m.ctrl[0], true
	}
	if len(m.req) > 0 {
		return m.req[0], true
	}
	if len(m.pri) > 0 {
		best := 0
		for i, it := range m.pri {
			b := m.pri[best]
			if it.p > b.p || (it.p == b.p && it.seq < b.seq) {
				best = i
			}
		}
		return m.pri[best].v, true
	}
	return 0, false
}

func (m *model) take() int {
	if len(m.ctrl) > 0 {
		v := m.ctrl[0]
		m.ctrl = m.ctrl[1:]
		return v
	}
	if len(m.req) > 0 {
		v := m.req[0]
		m.req = m.req[1:]
		return v
	}
	best := 0
	for i, it := range m.pri {
		b := m.pri[best]
		if it.p > b.p || (it.p == b.p && it.seq < b.seq) {
			best = i
		}
	}
	v := m.pri[best].v
	m.pri = append(m.pri[:best:best], m.pri[best+1:]...)
	return v
}

func (m *model) String() string {
	return fmt.Sprintf("ctrl=%v req=%v pri=%v closed=%v cleared=%v", m.ctrl, m.req, m.pri, m.closed, m.cleared)
}

func cmp(name, got, want string) (string, string) {
	if got != want {
		return got, fmt.Sprintf("%s returned %s, the list model says %s", name, got, want)
	}
	return got, ""
}

func ops(kind string, has *adapter) []seq.Op[*state] {
	var o []seq.Op[*state]
	addOp := func(name string, ctrl, prior bool, f func(a *adapter) func(int) string) {
		o = append(o, seq.Op[*state]{Name: name, Step: func(s *state) (string, string) {
			v := s.token()
			got := f(s.a)(v)
			m := s.m
			want := "ok"
			lst := &m.req
			capN := m.capReq
			if ctrl {
				lst = &m.ctrl
				capN = m.capCtrl
			}
			switch {
			case m.closed:
				want = "closed"
				if m.kind == "syncq" {
					want = "ok" // silently dropped
				}
			case !prior && capN > 0 && len(*lst) >= capN:
				want = "full"
			default:
				if prior {
					*lst = append([]int{v}, *lst...)
				} else {
					*lst = append(*lst, v)
				}
			}
			return cmp(name, got, want)
		}})
	}
	if has.add != nil && kind != "priq" {
		addOp("Add", false, false, func(a *adapter) func(int) string { return a.add })
	}
	if has.addPrior != nil {
		addOp("AddPrior", false, true, func(a *adapter) func(int) string { return a.addPrior })
	}
	if has.addCtrl != nil {
		addOp("AddCtrl", true, false, func(a *adapter) func(int) string { return a.addCtrl })
	}
	if has.addPriorCtrl != nil {
		addOp("AddPriorCtrl", true, true, func(a *adapter) func(int) string { return a.addPriorCtrl })
	}
	popLike := func(name string, anyway bool, f func(a *adapter) func() (int, string)) {
		o = append(o, seq.Op[*state]{Name: name,
			Enabled: func(s *state) bool { return s.m.size() > 0 || s.m.closed }, // would block otherwise
			Step: func(s *state) (string, string) {
				v, st := f(s.a)()
				got := st
				if st == "ok" {
					got = fmt.Sprint(v)
				}
				m := s.m
				var want string
				switch {
				case m.closed && !anyway && m.kind != "syncq":
					want = "closed"
				case m.size() > 0:
					want = fmt.Sprint(m.take())
				default:
					want = "closed"
				}
				return cmp(name, got, want)
			}})
	}
	if has.pop != nil && kind != "priq" {
		popLike("Pop", false, func(a *adapter) func() (int, string) { return a.pop })
	}
	if has.popAnyway != nil {
		popLike("PopAnyway", true, func(a *adapter) func() (int, string) { return a.popAnyway })
	}
	if has.tryPop != nil {
		o = append(o, seq.Op[*state]{Name: "TryPop", Step: func(s *state) (string, string) {
			v, hv, ok := s.a.tryPop()
			got := fmt.Sprintf("hasValue=%v ok=%v", hv, ok)
			if hv {
				got = fmt.Sprintf("%d ok=%v", v, ok)
			}
			m := s.m
			var want string
			switch {
			case m.size() > 0:
				want = fmt.Sprintf("%d ok=true", m.take())
			case m.closed:
				want = "hasValue=false ok=true"
			default:
				want = "hasValue=false ok=false"
			}
			return cmp("TryPop", got, want)
		}})
	}
	if kind == "priq" {
		for pi, p := range []int{0, 1, 2, math.MinInt, math.MaxInt} {
			pi, p := pi, p
			o = append(o, seq.Op[*state]{Name: fmt.Sprintf("Push(pri=%d)", p), Step: func(s *state) (string, string) {
				v := s.token()
				got := s.a.add(v*10 + pi)
				m := s.m
				want := "ok"
				if len(m.pri) >= m.capReq {
					want = "full"
				} else {
					m.seqNo++
					m.pri = append(m.pri, pitem{v*10 + pi, p, m.seqNo})
				}
				return cmp("Push", got, want)
			}})
		}
		o = append(o, seq.Op[*state]{Name: "Pop", Step: func(s *state) (string, string) {
			v, st := s.a.pop()
			got := st
			if st == "ok" {
				got = fmt.Sprint(v)
			}
			want := "empty"
			if s.m.size() > 0 {
				want = fmt.Sprint(s.m.take())
			}
			return cmp("Pop", got, want)
		}})
	}
	if has.close != nil {
		o = append(o, seq.Op[*state]{Name: "Close", Step: func(s *state) (string, string) {
			s.a.close()
			s.m.closed = true
			return "", ""
		}})
	}
	if has.tryClose != nil {
		o = append(o, seq.Op[*state]{Name: "TryClose", Step: func(s *state) (string, string) {
			got := s.a.tryClose()
			m := s.m
			if m.closed {
				// statement is silent on try-close of an already closed queue: either answer, no state change
				return fmt.Sprint(got), ""
			}
			want := m.size() == 0
			if want {
				m.closed = true
			}
			return cmp("TryClose", fmt.Sprint(got), fmt.Sprint(want))
		}})
	}
	if has.tryClear != nil {
		o = append(o, seq.Op[*state]{Name: "TryClear", Step: func(s *state) (string, string) {
			got := s.a.tryClear()
			m := s.m
			if m.cleared {
				return fmt.Sprint(got), ""
			}
			want := m.closed && m.size() == 0
			if want {
				m.cleared = true
			}
			return cmp("TryClear", fmt.Sprint(got), fmt.Sprint(want))
		}})
	}
	return o
}

func after(s *state) string {
	m := s.m
	if s.a.isClosed != nil && s.a.isClosed() != m.closed {
		return fmt.Sprintf("IsClosed=%v, model closed=%v", s.a.isClosed(), m.closed)
	}
	if s.a.isCleared != nil && s.a.isCleared() != m.cleared {
		return fmt.Sprintf("IsCleared=%v, model cleared=%v", s.a.isCleared(), m.cleared)
	}
	if s.a.length != nil && s.a.length() != m.size() {
		return fmt.Sprintf("Len=%d, model holds %d", s.a.length(), m.size())
	}
	return ""
}

// atEnd drains a replayed copy of the state with the draining call and compares order and content
// (never lost / duplicated / invented).
func atEnd(s *state) string {
	m := s.m
	var got, want []string
	for m.size() > 0 {
		want = append(want, fmt.Sprint(m.take()))
	}
	drain := s.a.popAnyway
	if m.kind == "syncq" || m.kind == "priq" {
		drain = s.a.pop
		if m.kind == "syncq" {
			drain = func() (int, string) {
				v, hv, _ := s.a.tryPop()
				if !hv {
					return 0, "empty"
				}
				return v, "ok"
			}
		}
	}
	for i := 0; i < len(want)+2; i++ {
		if i >= len(want) {
			// one more draining call must not produce an item; only issue it when it cannot block
			if m.kind == "pipe" || m.kind == "mq" {
				if !m.closed {
					break
				}
			}
		}
		v, st := drain()
		if st != "ok" {
			break
		}
		got = append(got, fmt.Sprint(v))
	}
	if strings.Join(got, ",") != strings.Join(want, ",") {
		return fmt.Sprintf("draining the queue handed out [%s], the list model holds [%s]", strings.Join(got, ","), strings.Join(want, ","))
	}
	return ""
}

func key(s *state) string {
	m := s.m
	// model state with tokens renamed by position (tokens are fresh, only their relative order matters)
	ren := map[int]int{}
	var all []int
	for _, v := range m.ctrl {
		all = append(all, v)
	}
	for _, v := range m.req {
		all = append(all, v)
	}
	for _, it := range m.pri {
		all = append(all, it.v)
	}
	sort.Ints(all)
	for i, v := range all {
		ren[v] = i
	}
	var b strings.Builder
	for _, v := range m.ctrl {
		fmt.Fprintf(&b, "c%d,", ren[v])
	}
	for _, v := range m.req {
		fmt.Fprintf(&b, "r%d,", ren[v])
	}
	ps := append([]pitem(nil), m.pri...)
	sort.Slice(ps, func(i, j int) bool { return ps[i].seq < ps[j].seq })
	for _, it := range ps {
		fmt.Fprintf(&b, "p%d/%d,", ren[it.v], it.p)
	}
	fmt.Fprintf(&b, "|%v|%v", m.closed, m.cleared)
	return b.String()
}

type maker struct {
	name string
	kind string
	mk   func() *state
}

func makers() []maker {
	var out []maker
	for _, c := range []int{0, 1, 2} {
		c := c
		out = append(out, maker{fmt.Sprintf("pipe/q.Q/cap=%d", c), "pipe", func() *state {
			x := q.NewQ(q.WithSize(c))
			return &state{m: &model{kind: "pipe", capReq: c}, a: &adapter{
				add:       func(v int) string { return norm(x.AddReq(v), q.ErrClosed, q.ErrReqQFull, nil) },
				addPrior:  func(v int) string { return norm(x.AddPriorReq(v), q.ErrClosed, q.ErrReqQFull, nil) },
				pop:       func() (int, string) { v, e := x.Pop(); return val(v, e, q.ErrClosed) },
				popAnyway: func() (int, string) { v, e := x.PopAnyway(); return val(v, e, q.ErrClosed) },
				close:     x.Close}}
		}})
		out = append(out, maker{fmt.Sprintf("pipe/async.Q/cap=%d", c), "pipe", func() *state {
			x := async.NewQ(c)
			return &state{m: &model{kind: "pipe", capReq: c}, a: &adapter{
				add:       func(v int) string { return norm(x.Add(v), async.ErrClosed, async.ErrFull, nil) },
				addPrior:  func(v int) string { return norm(x.AddPrior(v), async.ErrClosed, async.ErrFull, nil) },
				pop:       func() (int, string) { v, e := x.Pop(); return val(v, e, async.ErrClosed) },
				popAnyway: func() (int, string) { v, e := x.PopAnyway(); return val(v, e, async.ErrClosed) },
				close:     x.Close, isClosed: x.IsClosed}}
		}})
		out = append(out, maker{fmt.Sprintf("pipe/mux.Q/cap=%d", c), "pipe", func() *state {
			x := mux.NewQ(c)
			return &state{m: &model{kind: "pipe", capReq: c}, a: &adapter{
				add:       func(v int) string { return norm(x.AddReq(v), mux.ErrClosed, mux.ErrQFull, nil) },
				addPrior:  func(v int) string { return norm(x.AddPriorReq(v), mux.ErrClosed, mux.ErrQFull, nil) },
				pop:       func() (int, string) { v, e := x.Pop(); return val(v, e, mux.ErrClosed) },
				popAnyway: func() (int, string) { v, e := x.PopAnyway(); return val(v, e, mux.ErrClosed) },
				close:     x.Close, isClosed: x.IsClosed}}
		}})
	}
	for _, cc := range [][2]int{{0, 0}, {1, 1}, {1, 2}, {2, 1}, {0, 1}, {2, 0}} {
		cc := cc
		out = append(out, maker{fmt.Sprintf("pipe/mq.MQ/capCtrl=%d/capReq=%d", cc[0], cc[1]), "mq", func() *state {
			x := mq.NewMQ(mq.WithQCtrlSize(cc[0]), mq.WithQReqSize(cc[1]))
			return &state{m: &model{kind: "mq", capCtrl: cc[0], capReq: cc[1]}, a: &adapter{
				add:          func(v int) string { return norm(x.AddReq(v), mq.ErrClosed, mq.ErrReqQFull, mq.ErrCtrlQFull) },
				addPrior:     func(v int) string { return norm(x.AddPriorReq(v), mq.ErrClosed, mq.ErrReqQFull, mq.ErrCtrlQFull) },
				addCtrl:      func(v int) string { return norm(x.AddCtrl(v), mq.ErrClosed, mq.ErrCtrlQFull, mq.ErrReqQFull) },
				addPriorCtrl: func(v int) string { return norm(x.AddPriorCtrl(v), mq.ErrClosed, mq.ErrCtrlQFull, mq.ErrReqQFull) },
				pop:          func() (int, string) { v, e := x.Pop(); return val(v, e, mq.ErrClosed) },
				popAnyway:    func() (int, string) { v, e := x.PopAnyway(); return val(v, e, mq.ErrClosed) },
				close:        x.Close, tryClose: x.TryClose, tryClear: x.TryClear, isClosed: x.IsClosed, isCleared: x.IsCleared}}
		}})
	}
	out = append(out, maker{"syncq.SyncQueue", "syncq", func() *state {
		x := syncq.NewSyncQueue()
		return &state{m: &model{kind: "syncq"}, a: &adapter{
			add: func(v int) string { x.Push(v); return "ok" },
			pop: func() (int, string) {
				v := x.Pop()
				if v == nil {
					return 0, "closed"
				}
				return v.(int), "ok"
			},
			tryPop: func() (int, bool, bool) {
				v, ok := x.TryPop()
				if v == nil {
					return 0, false, ok
				}
				return v.(int), true, ok
			},
			close: x.Close, length: x.Len}}
	}})
	for _, c := range []int{1, 2, 3} {
		c := c
		out = append(out, maker{fmt.Sprintf("priq.PriQueue/cap=%d", c), "priq", func() *state {
			x := priq.NewPriQueue(c)
			return &state{m: &model{kind: "priq", capReq: c}, a: &adapter{
				add: func(v int) string { return norm(x.Push(pent{priOf[v%10], v}), nil, priq.ErrQueueIsFull, nil) },
				pop: func() (int, string) {
					e := x.Pop()
					if e == nil {
						return 0, "empty"
					}
					return e.(pent).v, "ok"
				},
				length: x.Len}}
		}})
	}
	return out
}

// longRuns: fill-and-drain cycles with thousands of items (far beyond the depth of the exhaustive
// sequences) - sizes on both sides of every power of two up to 64 Ki, where container implementations
// switch representation, grow or shrink - against per-lane FIFO buckets.
func longRuns(c *seq.Ctx) {
	type lane struct{ items []int }
	for _, mk := range makers() {
		probe := mk.mk()
		if probe.m.capReq != 0 && mk.kind != "priq" || probe.m.capCtrl != 0 {
			continue // bounded variants refuse long fills; the priority queue gets its own big capacity below
		}
		for _, n := range []int{100, 1000, 4095, 4096, 4097, 8191, 8192, 8193, 16385, 20000, 65537} {
			for _, pattern := range []string{"fill-drain", "sawtooth", "two-cycles", "sliding-window"} {
				var st *state
				if mk.kind == "priq" {
					x := priq.NewPriQueue(n + 8)
					st = &state{m: &model{kind: "priq"}, a: &adapter{
						add: func(v int) string { return norm(x.Push(pent{priOf[v%5], v}), nil, priq.ErrQueueIsFull, nil) },
						pop: func() (int, string) {
							e := x.Pop()
							if e == nil {
								return 0, "empty"
							}
							return e.(pent).v, "ok"
						},
						length: x.Len}}
					if mk.name != "priq.PriQueue/cap=1" {
						continue
					}
				} else {
					st = mk.mk()
				}
				a := st.a
				// reference: lanes in hand-out order; lane 0 = ctrl (or highest priority) ... each FIFO
				nl := 1
				laneOf := func(v int) int { return 0 }
				switch mk.kind {
				case "mq":
					nl = 2
					laneOf = func(v int) int { return v % 2 } // even tokens go to the ctrl lane
				case "priq":
					nl = 5
					order := []int{4, 2, 1, 0, 3} // priOf index by descending priority: MaxInt, 2, 1, 0, MinInt
					rank := map[int]int{}
					for r, pi := range order {
						rank[pi] = r
					}
					laneOf = func(v int) int { return rank[v%5] }
				}
				lanes := make([]lane, nl)
				next, size := 0, 0
				bad := ""
				push := func(k int) {
					for i := 0; i < k && bad == ""; i++ {
						next++
						v := next
						var got string
						if mk.kind == "mq" && v%2 == 0 {
							got = a.addCtrl(v)
						} else {
							got = a.add(v)
						}
						if got != "ok" {
							bad = fmt.Sprintf("add #%d (queue holds %d) answered %s", v, size, got)
							return
						}
						lanes[laneOf(v)].items = append(lanes[laneOf(v)].items, v)
						size++
						if a.length != nil && a.length() != size {
							bad = fmt.Sprintf("after add #%d Len() = %d, want %d", v, a.length(), size)
						}
					}
				}
				pop := func(k int) {
					for i := 0; i < k && bad == ""; i++ {
						want := -1
						for li := range lanes {
							if len(lanes[li].items) > 0 {
								want = lanes[li].items[0]
								lanes[li].items = lanes[li].items[1:]
								break
							}
						}
						var got int
						var res string
						switch {
						case a.tryPop != nil:
							var has bool
							got, has, _ = a.tryPop()
							res = map[bool]string{true: "ok", false: "empty"}[has]
						case a.popAnyway != nil:
							got, res = a.popAnyway()
						default:
							got, res = a.pop()
						}
						size--
						if res != "ok" || got != want {
							bad = fmt.Sprintf("pop with %d items queued handed out %d (%s), the model says %d", size+1, got, res, want)
							return
						}
						if a.length != nil && a.length() != size {
							bad = fmt.Sprintf("after a pop Len() = %d, want %d", a.length(), size)
						}
					}
				}
				switch pattern {
				case "fill-drain":
					push(n)
					pop(n)
				case "sawtooth":
					push(n)
					pop(n / 2)
					push(n / 2)
					pop(size)
					push(3)
					pop(3)
				case "two-cycles":
					push(n)
					pop(n - 1)
					push(n)
					pop(size)
				case "sliding-window":
					// a standing backlog that slides through the storage (pop one, push one), then shrinks in steps
					back := n
					if back > 3000 {
						back = 3000
					}
					push(back)
					for i := 0; i < 2*back+7 && bad == ""; i++ {
						pop(1)
						push(1)
					}
					for size > 0 && bad == "" {
						pop((size + 1) / 2)
						push(1)
						pop(1)
					}
				}
				c.Case(fmt.Sprintf("long/%s/%s/%v", mk.kind, pattern, bad == ""), bad, mk.kind+" queue loses, reorders or miscounts items in a long "+pattern+" run", func() interface{} {
					return map[string]interface{}{"queue": mk.name, "n": n, "pattern": pattern}
				})
			}
		}
	}
}

// sizeOptions: a capacity option given twice - the last one wins, and 0 means "no limit" wherever it
// stands; checked by filling.
func sizeOptions(c *seq.Ctx) {
	fill := func(add func(v int) error, full error) int {
		n := 0
		for n < 50 {
			if err := add(n); err != nil {
				break
			}
			n++
		}
		return n
	}
	for _, a := range []int{0, 1, 2, 5} {
		for _, b := range []int{-1, 0, 1, 3} {
			want := b
			if b == -1 {
				want = a // only one option given
			}
			if want == 0 {
				want = 50
			}
			opts := []q.Option{q.WithSize(a)}
			mopts := []mq.Option{mq.WithQReqSize(a), mq.WithQCtrlSize(a)}
			if b >= 0 {
				opts = append(opts, q.WithSize(b))
				mopts = append(mopts, mq.WithQReqSize(b), mq.WithQCtrlSize(b))
			}
			x := q.NewQ(opts...)
			got := fill(func(v int) error { return x.AddReq(v) }, q.ErrReqQFull)
			bad := ""
			if got != want {
				bad = fmt.Sprintf("q.NewQ(WithSize(%d), WithSize(%d) [-1 = not given]) accepted %d ordinary adds, want %d (50 = unbounded)", a, b, got, want)
			}
			m := mq.NewMQ(mopts...)
			gr := fill(func(v int) error { return m.AddReq(v) }, mq.ErrReqQFull)
			gc := fill(func(v int) error { return m.AddCtrl(v) }, mq.ErrCtrlQFull)
			if bad == "" && (gr != want || gc != want) {
				bad = fmt.Sprintf("mq.NewMQ with request/control sizes %d then %d [-1 = not given] accepted %d requests and %d controls, want %d each (50 = unbounded)", a, b, gr, gc, want)
			}
			c.Case(fmt.Sprintf("size-options/%v", bad == ""), bad, "a capacity option given twice: the last one does not win", func() interface{} { return []int{a, b} })
		}
	}
}

func main() {
	r := ev.Start("C12")
	r.Rule("per queue type and capacity: (a) plain enumeration of ALL sequences of non-blocking calls (add / prior add / ctrl add / pop / pop-anyway / try-pop / close / try-close / try-clear / push with priority 0..2) up to the stated depth with no state merging; (b) breadth-first with merging on the list-model state to a greater depth; in both, after EVERY step the call's result, IsClosed/IsCleared/Len and a full drain of a replayed copy are compared with a list model (two lists for MQ, stable priority order for the priority queue); (c) long fill-and-drain, sawtooth, two-cycle and sliding-window runs of 100..65537 items on every unbounded queue and a large priority queue against per-lane FIFO buckets; distinct = (op, result) pairs")
	r.Assume("only calls the model says cannot block are issued (blocking is C13)", "try-close on an already closed and try-clear on an already cleared queue may answer either way")
	var jobs []func()
	for _, mk := range makers() {
		mk := mk
		if !r.Want(mk.name) {
			continue
		}
		probe := mk.mk()
		o := ops(mk.kind, probe.a)
		jobs = append(jobs, func() {
			seq.Explore(r, &seq.Spec[*state]{Name: mk.name + "/all-sequences", Ops: o, New: mk.mk, After: after, AtEnd: atEnd, Depth: r.Pick(5, 6)})
		})
		jobs = append(jobs, func() {
			seq.Explore(r, &seq.Spec[*state]{Name: mk.name + "/merged", Ops: o, New: mk.mk, After: after, AtEnd: atEnd, Key: key, Depth: r.Pick(10, 13)})
		})
	}
	jobs = append(jobs, func() { seq.RunFamily(r, seq.Family{Name: "long-fill-and-drain", Run: longRuns}) })
	jobs = append(jobs, func() { seq.RunFamily(r, seq.Family{Name: "capacity-option-given-twice", Run: sizeOptions}) })
	seq.Parallel(16, jobs)
	r.Finish()
}
