// C18: gormx.Transact — commit iff every step succeeded, else rollback, exactly once (engine I:
// fault enumeration below gorm, over an in-process database/sql driver).
package main

import (
	"context"
	"database/sql"
	"database/sql/driver"
	"errors"
	"fmt"
	"io"
	"strings"

	"github.com/pinealctx/neptune/store/gormx"
	"gorm.io/driver/mysql"
	"gorm.io/gorm"
	"gorm.io/gorm/logger"

	"github.com/pinealctx/neptune/ulog"
	"go.uber.org/zap/zapcore"

	"verifh/ev"
	_ "verifh/quiet"
	"verifh/seq"
)

// ---- recording / failing driver ----

type env struct {
	events       []string
	failBegin    bool
	failCommit   bool
	failRollback bool
	failExec     bool
}

var (
	errBegin    = errors.New("injected begin failure")
	errCommit   = errors.New("injected commit failure")
	errRollback = errors.New("injected rollback failure")
	errExec     = errors.New("injected exec failure")
	errRecorded = errors.New("error recorded on the handle by a step that returned nil")
)

type connector struct{ e *env }

func (c connector) Connect(context.Context) (driver.Conn, error) { return &conn{c.e}, nil }
func (c connector) Driver() driver.Driver                        { return drv{} }

type drv struct{}

func (drv) Open(string) (driver.Conn, error) { return nil, errors.New("not used") }

type conn struct{ e *env }

func (c *conn) Prepare(q string) (driver.Stmt, error) { return &stmt{c.e, q}, nil }
func (c *conn) Close() error                          { return nil }
func (c *conn) Begin() (driver.Tx, error)             { return c.BeginTx(context.Background(), driver.TxOptions{}) }
func (c *conn) BeginTx(context.Context, driver.TxOptions) (driver.Tx, error) {
	c.e.events = append(c.e.events, "Begin")
	if c.e.failBegin {
		return nil, errBegin
	}
	return &tx{c.e}, nil
}
func (c *conn) ExecContext(_ context.Context, q string, _ []driver.NamedValue) (driver.Result, error) {
	c.e.events = append(c.e.events, "Exec")
	if c.e.failExec {
		return nil, errExec
	}
	return driver.RowsAffected(1), nil
}
func (c *conn) QueryContext(_ context.Context, q string, _ []driver.NamedValue) (driver.Rows, error) {
	c.e.events = append(c.e.events, "Query")
	return &rows{}, nil
}
func (c *conn) Ping(context.Context) error { return nil }

type stmt struct {
	e *env
	q string
}

func (s *stmt) Close() error  { return nil }
func (s *stmt) NumInput() int { return -1 }
func (s *stmt) Exec([]driver.Value) (driver.Result, error) {
	s.e.events = append(s.e.events, "Exec")
	if s.e.failExec {
		return nil, errExec
	}
	return driver.RowsAffected(1), nil
}
func (s *stmt) Query([]driver.Value) (driver.Rows, error) { return &rows{}, nil }

type rows struct{}

func (*rows) Columns() []string         { return []string{"x"} }
func (*rows) Close() error              { return nil }
func (*rows) Next([]driver.Value) error { return io.EOF }

type tx struct{ e *env }

func (t *tx) Commit() error {
	t.e.events = append(t.e.events, "Commit")
	if t.e.failCommit {
		return errCommit
	}
	return nil
}
func (t *tx) Rollback() error {
	t.e.events = append(t.e.events, "Rollback")
	if t.e.failRollback {
		return errRollback
	}
	return nil
}

// handleMode: how the gorm handle given to Transact was obtained (families run one case at a time)
var handleMode = "default"

var handleModes = []string{"prepare-stmt-config", "prepare-stmt-session", "new-session", "with-context", "default-transaction-on", "debug", "dry-run-off-session"}

func open(e *env) (*gorm.DB, *sql.DB, error) {
	sdb := sql.OpenDB(connector{e})
	sdb.SetMaxOpenConns(1)
	cfg := &gorm.Config{Logger: logger.Discard, DisableAutomaticPing: true, SkipDefaultTransaction: true}
	switch handleMode {
	case "prepare-stmt-config":
		cfg.PrepareStmt = true
	case "default-transaction-on":
		cfg.SkipDefaultTransaction = false
	}
	g, err := gorm.Open(mysql.New(mysql.Config{Conn: sdb, SkipInitializeWithVersion: true}), cfg)
	if err == nil {
		switch handleMode {
		case "prepare-stmt-session":
			g = g.Session(&gorm.Session{PrepareStmt: true})
		case "new-session":
			g = g.Session(&gorm.Session{NewDB: true})
		case "with-context":
			g = g.WithContext(context.Background())
		case "debug":
			g = g.Session(&gorm.Session{Logger: logger.Discard})
		case "dry-run-off-session":
			g = g.Session(&gorm.Session{DryRun: false, SkipHooks: true})
		}
	}
	return g, sdb, err
}

// ---- steps ----

type stepKind int

const (
	sOK stepKind = iota
	sOKExec
	sErr
	sExecFails
	sPanicString
	sPanicError
	sPanicNil
	// error values a finaliser might be tempted to treat specially
	sErrCtxCanceled
	sErrCtxDeadline
	sErrWrappedCtx
	sErrTxDone
	sErrEOF
	sErrGormInvalidTx
	// re-entrant use: the step calls Transact on the transaction handle it was given (gorm refuses to
	// begin on a handle that is already in a transaction); the step ignores / returns that error
	sNestedIgnored
	sNestedPropagated
	// the step records an error on the handle it was given (txn.AddError - what an ignored failing
	// nested savepoint leaves behind) and returns nil: as far as Transact is concerned the step succeeded
	sAddErrorReturnsNil
	sLast = sAddErrorReturnsNil
)

var kindNames = []string{"ok", "ok+exec", "returns-error", "exec-fails", "panics(string)", "panics(error)", "panics(nil)",
	"returns-context.Canceled", "returns-context.DeadlineExceeded", "returns-wrapped-context.Canceled", "returns-sql.ErrTxDone", "returns-io.EOF", "returns-gorm.ErrInvalidTransaction",
	"nested-Transact(result ignored)", "nested-Transact(result returned)", "records-an-error-on-the-handle-and-returns-nil"}

var specialErrs = map[stepKind]error{
	sErrCtxCanceled: context.Canceled, sErrCtxDeadline: context.DeadlineExceeded, sErrWrappedCtx: fmt.Errorf("step failed: %w", context.Canceled),
	sErrTxDone: sql.ErrTxDone, sErrEOF: io.EOF, sErrGormInvalidTx: gorm.ErrInvalidTransaction,
}

func (k stepKind) fails() bool { return k >= sErr && k != sNestedIgnored && k != sAddErrorReturnsNil }

type panicErr struct{}

func (panicErr) Error() string { return "panic-error-value" }

type run struct {
	ran       []int
	stepErr   []error
	nestedBad string
}

func mkStep(i int, k stepKind, e *env, r *run) gormx.GormProcFn {
	return func(txn *gorm.DB) error {
		r.ran = append(r.ran, i)
		switch k {
		case sOK:
			return nil
		case sOKExec:
			return txn.Exec("UPDATE t SET x = 1").Error
		case sErr:
			return r.stepErr[i]
		case sExecFails:
			e.failExec = true
			err := txn.Exec("UPDATE t SET x = 2").Error
			e.failExec = false
			return err
		case sPanicString:
			panic(fmt.Sprintf("step %d blew up", i))
		case sPanicError:
			panic(panicErr{})
		case sPanicNil:
			var p interface{}
			panic(p)
		case sAddErrorReturnsNil:
			_ = txn.AddError(errRecorded)
			return nil
		case sNestedIgnored, sNestedPropagated:
			before := len(e.events)
			innerRan := false
			ierr := gormx.Transact(txn, func(*gorm.DB) error { innerRan = true; return nil })
			switch {
			case innerRan:
				r.nestedBad = "a Transact on a handle that is already in a transaction ran its step"
			case ierr == nil:
				r.nestedBad = "a Transact that could not begin (handle already in a transaction) returned nil"
			case len(e.events) != before:
				r.nestedBad = fmt.Sprintf("a Transact that could not begin touched the surrounding transaction: driver events %v", e.events[before:])
			}
			if k == sNestedPropagated {
				return ierr
			}
			return nil
		default:
			return specialErrs[k]
		}
	}
}

func hasKind(ks []stepKind, k stepKind) bool {
	for _, x := range ks {
		if x == k {
			return true
		}
	}
	return false
}

func count(ev []string, what string) int {
	n := 0
	for _, e := range ev {
		if e == what {
			n++
		}
	}
	return n
}

func check(c *seq.Ctx, kinds []stepKind, failBegin, failCommit, failRollback bool, wrap string, level zapcore.Level) {
	for i, k := range kinds {
		if k == sAddErrorReturnsNil && i != len(kinds)-1 {
			return // a recorded error makes every later statement on the handle fail: only the last step may leave one
		}
	}
	ulog.SetLogLevel(level)
	defer ulog.SetLogLevel(zapcore.DebugLevel)
	e := &env{failBegin: failBegin, failCommit: failCommit, failRollback: failRollback}
	g, sdb, err := open(e)
	if err != nil {
		c.Case("open", "cannot open gorm over the fake driver: "+err.Error(), "harness: open failed", nil)
		return
	}
	defer sdb.Close()
	r := &run{stepErr: make([]error, len(kinds))}
	var steps []gormx.GormProcFn
	var names []string
	for i, k := range kinds {
		r.stepErr[i] = fmt.Errorf("step-%d-error", i)
		steps = append(steps, mkStep(i, k, e, r))
		names = append(names, kindNames[k])
	}
	switch wrap {
	case "combine-all":
		if len(steps) > 0 {
			steps = []gormx.GormProcFn{gormx.Combine(steps...)}
		}
	case "combine-tail":
		if len(steps) > 1 {
			steps = []gormx.GormProcFn{steps[0], gormx.Combine(steps[1:]...)}
		}
	case "combine-nested":
		if len(steps) > 2 {
			steps = []gormx.GormProcFn{gormx.Combine(steps[0], gormx.Combine(steps[1:]...))}
		}
	}
	e.events = nil
	var res error
	escaped := func() (p string) {
		defer func() {
			if x := recover(); x != nil {
				p = fmt.Sprint(x)
			}
		}()
		res = gormx.Transact(g, steps...)
		return ""
	}()
	desc := fmt.Sprintf("steps=%v begin-fails=%v commit-fails=%v rollback-fails=%v wrap=%s log-level=%v handle=%s", names, failBegin, failCommit, failRollback, wrap, level, handleMode)
	firstFail := -1
	for i, k := range kinds {
		if k.fails() {
			firstFail = i
			break
		}
	}
	nB, nC, nR := count(e.events, "Begin"), count(e.events, "Commit"), count(e.events, "Rollback")
	bad, sig := "", ""
	fail := func(s, m string) {
		if bad == "" {
			sig, bad = s, fmt.Sprintf("%s: %s (driver events %v, steps run %v, result %v)", desc, m, e.events, r.ran, res)
		}
	}
	switch {
	case r.nestedBad != "":
		fail("a failed begin is not side-effect free", r.nestedBad)
	case escaped != "":
		fail("a panic escapes Transact", "panic escaped: "+escaped)
	case len(kinds) == 0:
		if nB != 0 || res != nil {
			fail("something is begun with no steps", "with no steps nothing may be begun")
		}
	case failBegin:
		if len(r.ran) != 0 {
			fail("a step runs after a failed begin", "begin failed but steps ran")
		}
		if res == nil {
			fail("a failed begin is reported as success", "begin failed but Transact returned nil")
		}
		if nC+nR != 0 {
			fail("commit/rollback after a failed begin", "begin failed but the transaction was finished")
		}
	default:
		if nB != 1 {
			fail("begin is not issued exactly once", fmt.Sprintf("%d begins", nB))
		}
		if nC+nR != 1 {
			fail("the transaction is not finished exactly once", fmt.Sprintf("%d commits and %d rollbacks", nC, nR))
		}
		wantRan := len(kinds)
		if firstFail >= 0 {
			wantRan = firstFail + 1
		}
		if len(r.ran) != wantRan {
			fail("a step runs after the first failure (or a step is skipped)", fmt.Sprintf("%d steps ran, want %d", len(r.ran), wantRan))
		}
		for i, x := range r.ran {
			if x != i {
				fail("steps run out of order", "order")
			}
		}
		if firstFail < 0 {
			if nC != 1 {
				fail("all steps succeeded but the transaction was not committed", "no commit")
			}
			if failCommit {
				if !errors.Is(res, errCommit) {
					fail("a failed commit is not reported", "commit failed")
				}
			} else if res != nil && !(errors.Is(res, errRecorded) && hasKind(kinds, sAddErrorReturnsNil)) {
				fail("all steps and the commit succeeded but an error is returned", "spurious error")
			}
		} else {
			if nR != 1 || nC != 0 {
				fail("a failing step does not lead to exactly one rollback", "committed or not rolled back")
			}
			if res == nil {
				fail("a failing step is reported as success", "nil result after a failing step")
			} else {
				switch kinds[firstFail] {
				case sErr:
					if !errors.Is(res, r.stepErr[firstFail]) {
						fail("the result is not the first failing step's error", "wrong error")
					}
				case sExecFails:
					if !errors.Is(res, errExec) {
						fail("the result is not the first failing step's error", "wrong error")
					}
				case sPanicString, sPanicError, sPanicNil:
					if !strings.Contains(res.Error(), "panic") {
						fail("the result does not describe the panic", "wrong error")
					}
				case sNestedPropagated:
					// the inner call's begin error, whatever gorm calls it
				default:
					if !errors.Is(res, specialErrs[kinds[firstFail]]) {
						fail("the result is not the first failing step's error", "wrong error")
					}
				}
			}
		}
	}
	cls := fmt.Sprintf("len=%d/firstFail=%v/begin=%v/commit=%v/rollback=%v/%s", len(kinds), firstFail >= 0, failBegin, failCommit, failRollback, wrap)
	c.Case(cls, bad, sig, func() interface{} { return desc })
}

// checkHeld: Transact is handed a handle the caller has already begun a transaction on (gorm cannot
// begin on it): no step runs, an error is returned, and the caller's transaction is left alone - the
// caller can still commit or roll it back.
func checkHeld(c *seq.Ctx, kinds []stepKind, callerCommits bool) {
	e := &env{}
	g, sdb, err := open(e)
	if err != nil {
		c.Case("open", "cannot open gorm over the fake driver: "+err.Error(), "harness: open failed", nil)
		return
	}
	defer sdb.Close()
	held := g.Begin()
	if held.Error != nil {
		c.Case("open", "caller's Begin failed: "+held.Error.Error(), "harness: begin failed", nil)
		return
	}
	r := &run{stepErr: make([]error, len(kinds))}
	var steps []gormx.GormProcFn
	var names []string
	for i, k := range kinds {
		r.stepErr[i] = fmt.Errorf("step-%d-error", i)
		steps = append(steps, mkStep(i, k, e, r))
		names = append(names, kindNames[k])
	}
	e.events = nil
	res := gormx.Transact(held, steps...)
	during := append([]string(nil), e.events...)
	var cerr error
	if callerCommits {
		cerr = held.Commit().Error
	} else {
		cerr = held.Rollback().Error
	}
	desc := fmt.Sprintf("handle already in a transaction, steps=%v, caller then commits=%v", names, callerCommits)
	bad, sig := "", ""
	fail := func(s, m string) {
		if bad == "" {
			sig, bad = s, fmt.Sprintf("%s: %s (driver events during Transact %v, afterwards %v, steps run %v, result %v, caller's finish error %v)", desc, m, during, e.events[len(during):], r.ran, res, cerr)
		}
	}
	if len(kinds) > 0 {
		if len(r.ran) != 0 {
			fail("a step runs after a failed begin", "steps ran")
		}
		if res == nil {
			fail("a failed begin is reported as success", "nil result")
		}
	}
	if len(during) != 0 {
		fail("a failed begin is not side-effect free", "Transact touched the caller's transaction")
	}
	want := "Rollback"
	if callerCommits {
		want = "Commit"
	}
	if cerr != nil || fmt.Sprint(e.events[len(during):]) != "["+want+"]" {
		fail("a failed begin is not side-effect free", "the caller can no longer finish its own transaction")
	}
	c.Case(fmt.Sprintf("held/len=%d/commit=%v", len(kinds), callerCommits), bad, sig, func() interface{} { return desc })
}

// checkWindows: the caller keeps its steps in ONE slice and hands Transact consecutive windows of it
// (batching): every step runs exactly once, in order, in the transaction of its own window, and the
// caller's slice still holds the caller's steps afterwards (Transact must not write into it).
func checkWindows(c *seq.Ctx, n, width int, failAt int) {
	e := &env{}
	g, sdb, err := open(e)
	if err != nil {
		c.Case("open", "cannot open gorm over the fake driver: "+err.Error(), "harness: open failed", nil)
		return
	}
	defer sdb.Close()
	var ran []int
	errStep := errors.New("window step failed")
	all := make([]gormx.GormProcFn, n, n+4) // spare capacity behind the last step too
	for i := 0; i < n; i++ {
		i := i
		all[i] = func(txn *gorm.DB) error {
			ran = append(ran, i)
			if i == failAt {
				return errStep
			}
			return nil
		}
	}
	desc := fmt.Sprintf("%d steps in one slice, windows of %d, step %d fails", n, width, failAt)
	bad := ""
	var wantRan []int
	for lo := 0; lo < n && bad == ""; lo += width {
		hi := lo + width
		if hi > n {
			hi = n
		}
		e.events = nil
		before := len(ran)
		res := gormx.Transact(g, all[lo:hi]...)
		fails := failAt >= lo && failAt < hi
		for i := lo; i < hi; i++ {
			wantRan = append(wantRan, i)
			if i == failAt {
				break
			}
		}
		nC, nR := count(e.events, "Commit"), count(e.events, "Rollback")
		switch {
		case fmt.Sprint(ran) != fmt.Sprint(wantRan):
			bad = fmt.Sprintf("window [%d,%d): steps run so far %v, want %v", lo, hi, ran, wantRan)
		case fails && (nR != 1 || nC != 0 || !errors.Is(res, errStep)):
			bad = fmt.Sprintf("window [%d,%d) holds the failing step: driver events %v, result %v", lo, hi, e.events, res)
		case !fails && (nC != 1 || nR != 0 || res != nil):
			bad = fmt.Sprintf("window [%d,%d) holds only succeeding steps: driver events %v, result %v", lo, hi, e.events, res)
		}
		_ = before
	}
	c.Case(fmt.Sprintf("windows/n=%d/ok=%v", n, bad == ""), func() string {
		if bad == "" {
			return ""
		}
		return desc + ": " + bad
	}(), "steps passed as windows of one slice do not each run once in their own transaction", func() interface{} { return desc })
}

func main() {
	r := ev.Start("C18")
	r.Rule("every step list of length 0..n over {ok, ok+Exec, returns error, Exec fails, panics(string), panics(error), panics(nil), special error values, a nested Transact on the step's own handle with its result ignored/returned, a step that records an error on the handle and returns nil} x begin ok/fails x commit ok/fails x rollback ok/fails x {plain, Combine(all), Combine(tail), nested Combine}, run through gormx.Transact on gorm's MySQL dialector over an in-process database/sql driver that records Begin/Exec/Commit/Rollback; plus 1..6 steps kept in one slice and passed as consecutive windows of every width (each step once, in its own window's transaction); plus Transact on a handle the caller already began a transaction on (no step, error, caller's transaction untouched and still finishable); lists of length <= 2 also under global log levels info/error/dpanic/fatal and on handles obtained in 7 further ways (PrepareStmt by config and by session, new session, WithContext, default transactions on, logger session, hook-skipping session); distinct = (length, outcome class, fault pattern, wrapping)")
	r.Assume("a failing driver callback has no effect", "panic(nil) follows the toolchain's semantics for the harness module (go 1.21: *runtime.PanicNilError)")
	n := r.Pick(3, 4)
	seq.RunFamily(r, seq.Family{Name: "transact", Run: func(c *seq.Ctx) {
		kinds := make([]stepKind, 0, n)
		var rec func(target int)
		rec = func(target int) {
			if c.Expired() {
				return
			}
			if len(kinds) == target {
				for _, fb := range []bool{false, true} {
					for _, fc := range []bool{false, true} {
						for _, fr := range []bool{false, true} {
							for _, w := range []string{"plain", "combine-all", "combine-tail", "combine-nested"} {
								if fb && (fc || fr) && len(kinds) > 1 {
									continue // begin fails: commit/rollback faults are unreachable; kept for the short lists only
								}
								check(c, kinds, fb, fc, fr, w, zapcore.DebugLevel)
								if len(kinds) <= 2 && w == "plain" {
									// the outcome must not depend on how much is logged
									for _, lv := range []zapcore.Level{zapcore.InfoLevel, zapcore.ErrorLevel, zapcore.DPanicLevel, zapcore.FatalLevel} {
										check(c, kinds, fb, fc, fr, w, lv)
									}
									// ... nor on how the handle was configured (prepared-statement mode wraps the
									// connection pool and the transaction in gorm's own types)
									for _, hm := range handleModes {
										handleMode = hm
										check(c, kinds, fb, fc, fr, w, zapcore.DebugLevel)
										handleMode = "default"
									}
								}
							}
						}
					}
				}
				return
			}
			for k := sOK; k <= sLast; k++ {
				kinds = append(kinds, k)
				rec(target)
				kinds = kinds[:len(kinds)-1]
			}
		}
		for l := 0; l <= n; l++ { // shortest lists first, so the first counterexample is the shortest
			rec(l)
		}
	}})
	seq.RunFamily(r, seq.Family{Name: "windows-of-one-step-slice", Run: func(c *seq.Ctx) {
		for n := 1; n <= 6; n++ {
			for width := 1; width <= n; width++ {
				for failAt := -1; failAt < n; failAt++ {
					checkWindows(c, n, width, failAt)
				}
			}
		}
	}})
	seq.RunFamily(r, seq.Family{Name: "transact-on-a-handle-already-in-a-transaction", Run: func(c *seq.Ctx) {
		for l := 0; l <= 2; l++ {
			kinds := make([]stepKind, l)
			var rec func(i int)
			rec = func(i int) {
				if i == l {
					checkHeld(c, kinds, true)
					checkHeld(c, kinds, false)
					return
				}
				for k := sOK; k <= sLast; k++ {
					kinds[i] = k
					rec(i + 1)
				}
			}
			rec(0)
		}
	}})
	r.Finish()
}
