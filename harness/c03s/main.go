// C03 (concurrent clauses): the locked wrapper is linearizable w.r.t. the sorted set under concurrent
// readers and writers; writes to a clone and to its origin from different goroutines stay isolated.
package main

import (
	"fmt"
	"sort"
	"strings"

	"github.com/pinealctx/neptune/ds/tree"
	"github.com/pinealctx/neptune/ds/tree/btree"

	"verifh/ev"
	"verifh/mc"
)

type item struct{ k, ver int }

func (a *item) Less(b btree.Item) bool { return a.k < b.(*item).k }
func (a *item) String() string         { return fmt.Sprintf("%d.%d", a.k, a.ver) }

type model struct{ its []*item }

func (m *model) Clone() mc.LinModel { return &model{append([]*item(nil), m.its...)} }
func (m *model) find(k int) int {
	return sort.Search(len(m.its), func(i int) bool { return m.its[i].k >= k })
}
func (m *model) get(k int) *item {
	if i := m.find(k); i < len(m.its) && m.its[i].k == k {
		return m.its[i]
	}
	return nil
}
func (m *model) put(it *item) {
	i := m.find(it.k)
	if i < len(m.its) && m.its[i].k == it.k {
		m.its[i] = it
		return
	}
	m.its = append(m.its, nil)
	copy(m.its[i+1:], m.its[i:])
	m.its[i] = it
}
func (m *model) del(k int) bool {
	i := m.find(k)
	if i < len(m.its) && m.its[i].k == k {
		m.its = append(m.its[:i:i], m.its[i+1:]...)
		return true
	}
	return false
}
func (m *model) String() string {
	var s []string
	for _, i := range m.its {
		s = append(s, i.String())
	}
	return strings.Join(s, ",")
}

type opSpec struct {
	kind  string // ins del upd upi get asc desc
	k, k2 int
}

func nodes(ns []tree.Node) string {
	var s []string
	for _, n := range ns {
		s = append(s, n.(*item).String())
	}
	return strings.Join(s, ",")
}

func wrapper(threads [][]opSpec, fine bool, pb [2]int) *mc.Scenario {
	var ds []string
	for _, t := range threads {
		var os []string
		for _, o := range t {
			os = append(os, fmt.Sprintf("%s(%d,%d)", o.kind, o.k, o.k2))
		}
		ds = append(ds, strings.Join(os, ","))
	}
	return &mc.Scenario{Name: fmt.Sprintf("wrapper/%s/fine=%v", strings.Join(ds, "|"), fine), PB: pb, Fine: fine, Main: func(w *mc.World) {
		t := tree.NewBTree()
		init := &model{}
		for k := 0; k < 6; k += 2 { // seed 0,2,4 so that the degree-2 tree has two levels
			it := &item{k, 0}
			t.Insert(it)
			init.put(it)
		}
		var clk mc.Clock
		var evs []mc.LinEvent
		all := func(tree.Node) bool { return true }
		for ti, ops := range threads {
			ti, ops := ti, ops
			w.Go(fmt.Sprintf("T%d", ti), func() {
				for oi, o := range ops {
					o := o
					w.Touch()
					inv := clk.Tick()
					nv := &item{o.k2, 100 + ti*10 + oi}
					if o.kind == "ins" {
						nv.k = o.k
					}
					var got string
					switch o.kind {
					case "ins":
						t.Insert(nv)
					case "del":
						got = fmt.Sprint(t.Delete(&item{k: o.k}))
					case "upd":
						got = fmt.Sprint(t.Update(&item{k: o.k}, nv))
					case "upi":
						got = fmt.Sprint(t.UpdateOrInsert(&item{k: o.k}, nv))
					case "get":
						if n := t.Get(&item{k: o.k}); n != nil {
							got = n.(*item).String()
						} else {
							got = "nil"
						}
					case "asc":
						got = nodes(t.AscendGte(&item{k: o.k}, all, 10))
					case "desc":
						got = nodes(t.DescendLt(&item{k: o.k}, all, 10))
					}
					w.Touch()
					ret := clk.Tick()
					evs = append(evs, mc.LinEvent{Inv: inv, Ret: ret, Desc: fmt.Sprintf("%s(%d,%d)=%s", o.kind, o.k, o.k2, got), Step: func(lm mc.LinModel) bool {
						m := lm.(*model)
						switch o.kind {
						case "ins":
							m.put(nv)
							return true
						case "del":
							return got == fmt.Sprint(m.del(o.k))
						case "upd":
							ok := m.del(o.k)
							if ok {
								m.put(nv)
							}
							return got == fmt.Sprint(ok)
						case "upi":
							ok := m.del(o.k)
							m.put(nv)
							return got == fmt.Sprint(ok)
						case "get":
							if it := m.get(o.k); it != nil {
								return got == it.String()
							}
							return got == "nil"
						case "asc":
							var s []string
							for _, it := range m.its {
								if it.k >= o.k {
									s = append(s, it.String())
								}
							}
							return got == strings.Join(s, ",")
						default:
							var s []string
							for i := len(m.its) - 1; i >= 0; i-- {
								if m.its[i].k < o.k {
									s = append(s, m.its[i].String())
								}
							}
							return got == strings.Join(s, ",")
						}
					}})
					w.Obs("%s(%d,%d)=%s", o.kind, o.k, o.k2, got)
				}
			})
		}
		w.Join()
		w.Touch()
		final := nodes(t.AscendGte(&item{k: -1}, all, 100))
		if err := t.VerifInner().VerifCheck(); err != nil {
			w.Failf("tree structure broken after concurrent operations: %v", err)
		}
		if !mc.Linearizable(init, evs, func(lm mc.LinModel) bool { return lm.(*model).String() == final }) {
			var d []string
			for _, e := range evs {
				d = append(d, fmt.Sprintf("[%d,%d]%s", e.Inv, e.Ret, e.Desc))
			}
			w.Failf("no linearization of the concurrent calls %v explains their results and the final content [%s] against the sorted set", d, final)
		}
		w.Obs("final=%s", final)
	}}
}

// clone isolation with the two trees written from different goroutines
func cloneScenario(degree int, a, b []opSpec, fine bool, pb [2]int) *mc.Scenario {
	return &mc.Scenario{Name: fmt.Sprintf("clone/degree=%d/orig:%v|clone:%v/fine=%v", degree, a, b, fine), PB: pb, Fine: fine, Main: func(w *mc.World) {
		t := btree.New(degree)
		ma := &model{}
		for k := 0; k < 10; k += 2 {
			it := &item{k, 0}
			t.ReplaceOrInsert(it)
			ma.put(it)
		}
		c := t.Clone()
		mb := ma.Clone().(*model)
		run := func(tr *btree.BTree, m *model, ops []opSpec, tag int) func() {
			return func() {
				for oi, o := range ops {
					switch o.kind {
					case "ins":
						it := &item{o.k, tag + oi}
						tr.ReplaceOrInsert(it)
						m.put(it)
					case "del":
						tr.Delete(&item{k: o.k})
						m.del(o.k)
					}
				}
			}
		}
		w.Go("orig-writer", run(t, ma, a, 100))
		w.Go("clone-writer", run(c, mb, b, 200))
		w.Join()
		w.Touch()
		dump := func(tr *btree.BTree) string {
			var s []string
			tr.Ascend(func(i btree.Item) bool { s = append(s, i.(*item).String()); return true })
			return strings.Join(s, ",")
		}
		for _, p := range []struct {
			name string
			tr   *btree.BTree
			m    *model
		}{{"original", t, ma}, {"clone", c, mb}} {
			if err := p.tr.VerifCheck(); err != nil {
				w.Failf("%s tree structure broken: %v", p.name, err)
			}
			if got := dump(p.tr); got != p.m.String() || p.tr.Len() != len(p.m.its) {
				w.Failf("%s tree holds [%s] (Len %d) after concurrent writes to both sides, its own model holds [%s]", p.name, got, p.tr.Len(), p.m.String())
			}
		}
		w.Obs("orig=%s clone=%s", dump(t), dump(c))
	}}
}

func main() {
	r := ev.Start("C03")
	I := func(k int) opSpec { return opSpec{"ins", k, k} }
	D := func(k int) opSpec { return opSpec{"del", k, 0} }
	U := func(k, k2 int) opSpec { return opSpec{"upd", k, k2} }
	UI := func(k, k2 int) opSpec { return opSpec{"upi", k, k2} }
	G := func(k int) opSpec { return opSpec{"get", k, 0} }
	A := func(k int) opSpec { return opSpec{"asc", k, 0} }
	DS := func(k int) opSpec { return opSpec{"desc", k, 0} }
	progs := [][][]opSpec{
		{{I(1)}, {D(2)}, {A(0)}},
		{{U(2, 3)}, {G(2), G(3)}},
		{{UI(4, 5)}, {D(4)}, {DS(9)}},
		{{I(6), I(8)}, {D(0), A(1)}},
		{{U(2, 3)}, {D(2)}},
		{{U(2, 3)}, {U(2, 5)}},
		{{UI(2, 3)}, {D(2)}, {G(3)}},
		{{U(2, 4)}, {I(2)}, {D(4)}},
	}
	var scs []*mc.Scenario
	for _, p := range progs {
		scs = append(scs, wrapper(p, false, [2]int{3, 4}), wrapper(p, true, [2]int{1, 2}))
	}
	for _, deg := range []int{2, 3} {
		scs = append(scs,
			cloneScenario(deg, []opSpec{I(1), D(4)}, []opSpec{I(3), D(0), I(12)}, false, [2]int{3, 4}),
			cloneScenario(deg, []opSpec{I(1), D(4)}, []opSpec{I(3), D(0), I(12)}, true, [2]int{1, 2}),
			cloneScenario(deg, []opSpec{D(0), D(2), D(4)}, []opSpec{I(1), I(3), I(5)}, true, [2]int{1, 1}))
	}
	mc.Main(r, scs)
}
