// C11: tex.Buffer is observationally identical to bytes.Buffer (engine H, differential).
package main

import (
	"bytes"
	"errors"
	"fmt"
	"io"
	"reflect"
	"strings"

	"github.com/pinealctx/neptune/tex"

	"verifh/ev"
	"verifh/seq"
)

type pair struct {
	t        *tex.Buffer
	b        *bytes.Buffer
	lastGrow bool
}

func errStr(e error) string {
	if e == nil {
		return "nil"
	}
	return e.Error()
}

// call runs f and returns its printable result or the recovered panic message.
func call(f func() string) (out string) {
	defer func() {
		if r := recover(); r != nil {
			switch x := r.(type) {
			case error:
				out = "PANIC:" + x.Error()
			default:
				out = fmt.Sprintf("PANIC:%v", x)
			}
			// runtime errors carry addresses/indices that are identical in both copies for equal state,
			// but keep only the stable prefix
			if i := strings.Index(out, " ["); i > 0 && strings.Contains(out, "slice bounds") {
				out = out[:i]
			}
		}
	}()
	return f()
}

func (p *pair) both(name string, ft, fb func() string) (string, string) {
	rt := call(ft)
	rb := call(fb)
	vt := fmt.Sprintf("%s|len=%d|%q", rt, p.t.Len(), p.t.String())
	vb := fmt.Sprintf("%s|len=%d|%q", rb, p.b.Len(), p.b.String())
	if string(p.t.Bytes()) != p.t.String() {
		return vt, fmt.Sprintf("%s: tex Bytes()=%q differs from String()=%q", name, p.t.Bytes(), p.t.String())
	}
	if vt != vb {
		return vt, fmt.Sprintf("%s: tex.Buffer -> %s ; bytes.Buffer -> %s", name, vt, vb)
	}
	return vt, ""
}

type scriptedReader struct {
	chunks []string
	err    error
	neg    bool
	i      int
}

func (s *scriptedReader) Read(p []byte) (int, error) {
	if s.neg {
		return -1, nil
	}
	if s.i >= len(s.chunks) {
		if s.err != nil {
			return 0, s.err
		}
		return 0, io.EOF
	}
	n := copy(p, s.chunks[s.i])
	if n < len(s.chunks[s.i]) {
		s.chunks[s.i] = s.chunks[s.i][n:]
	} else {
		s.i++
	}
	return n, nil
}

// eofLike is an error that claims kinship with io.EOF through errors.Is without being it.
type eofLike struct{}

func (eofLike) Error() string        { return "eof-like error" }
func (eofLike) Is(target error) bool { return target == io.EOF }

type scriptedWriter struct {
	mode string // full short err over
	got  []byte
}

var errW = errors.New("scripted write error")

func (s *scriptedWriter) Write(p []byte) (int, error) {
	switch s.mode {
	case "short":
		n := len(p) - 1
		if n < 0 {
			n = 0
		}
		s.got = append(s.got, p[:n]...)
		return n, nil
	case "err":
		n := len(p) / 2
		s.got = append(s.got, p[:n]...)
		return n, errW
	case "over":
		s.got = append(s.got, p...)
		return len(p) + 1, nil
	}
	s.got = append(s.got, p...)
	return len(p), nil
}

func ops(quick bool) []seq.Op[*pair] {
	var o []seq.Op[*pair]
	add := func(name string, grow bool, ft func(t *tex.Buffer) string, fb func(b *bytes.Buffer) string) {
		o = append(o, seq.Op[*pair]{Name: name, Step: func(p *pair) (string, string) {
			obs, bad := p.both(name, func() string { return ft(p.t) }, func() string { return fb(p.b) })
			p.lastGrow = grow
			return obs, bad
		}})
	}
	payloads := []string{"", "a", "bcd", strings.Repeat("x", 40), strings.Repeat("y", 70), "é世"}
	for _, pl := range payloads {
		pl := pl
		nm := fmt.Sprintf("%q", pl)
		if len(pl) > 8 {
			nm = fmt.Sprintf("%c*%d", pl[0], len(pl))
		}
		add("Write("+nm+")", false, func(t *tex.Buffer) string { n, e := t.Write([]byte(pl)); return fmt.Sprint(n, errStr(e)) }, func(b *bytes.Buffer) string { n, e := b.Write([]byte(pl)); return fmt.Sprint(n, errStr(e)) })
		add("WriteString("+nm+")", false, func(t *tex.Buffer) string { n, e := t.WriteString(pl); return fmt.Sprint(n, errStr(e)) }, func(b *bytes.Buffer) string { n, e := b.WriteString(pl); return fmt.Sprint(n, errStr(e)) })
	}
	add("WriteByte(z)", false, func(t *tex.Buffer) string { return errStr(t.WriteByte('z')) }, func(b *bytes.Buffer) string { return errStr(b.WriteByte('z')) })
	for _, r := range []rune{'a', 0x80, 0x10FFFF, 0xD800, -1, 0x110000, 0x7f} {
		r := r
		add(fmt.Sprintf("WriteRune(%#x)", r), false, func(t *tex.Buffer) string { n, e := t.WriteRune(r); return fmt.Sprint(n, errStr(e)) }, func(b *bytes.Buffer) string { n, e := b.WriteRune(r); return fmt.Sprint(n, errStr(e)) })
	}
	for _, n := range []int{0, 1, 3, 100} {
		n := n
		add(fmt.Sprintf("Read(%d)", n), false, func(t *tex.Buffer) string {
			p := make([]byte, n)
			k, e := t.Read(p)
			return fmt.Sprintf("%d %s %q", k, errStr(e), p[:max(k, 0)])
		},
			func(b *bytes.Buffer) string {
				p := make([]byte, n)
				k, e := b.Read(p)
				return fmt.Sprintf("%d %s %q", k, errStr(e), p[:max(k, 0)])
			})
	}
	add("ReadByte", false, func(t *tex.Buffer) string { c, e := t.ReadByte(); return fmt.Sprint(c, errStr(e)) }, func(b *bytes.Buffer) string { c, e := b.ReadByte(); return fmt.Sprint(c, errStr(e)) })
	add("ReadRune", false, func(t *tex.Buffer) string { r, n, e := t.ReadRune(); return fmt.Sprint(r, n, errStr(e)) }, func(b *bytes.Buffer) string { r, n, e := b.ReadRune(); return fmt.Sprint(r, n, errStr(e)) })
	unreadB := len(o)
	add("UnreadByte", false, func(t *tex.Buffer) string { return errStr(t.UnreadByte()) }, func(b *bytes.Buffer) string { return errStr(b.UnreadByte()) })
	add("UnreadRune", false, func(t *tex.Buffer) string { return errStr(t.UnreadRune()) }, func(b *bytes.Buffer) string { return errStr(b.UnreadRune()) })
	for i := unreadB; i < len(o); i++ {
		o[i].Enabled = func(p *pair) bool { return !p.lastGrow }
	}
	for _, n := range []int{0, 2, 1000} {
		n := n
		add(fmt.Sprintf("Next(%d)", n), false, func(t *tex.Buffer) string { return fmt.Sprintf("%q", t.Next(n)) }, func(b *bytes.Buffer) string { return fmt.Sprintf("%q", b.Next(n)) })
	}
	for _, k := range []string{"0", "1", "Len", "Len+1", "-1", "Len-1"} {
		k := k
		arg := func(l int) int {
			switch k {
			case "0":
				return 0
			case "1":
				return 1
			case "Len":
				return l
			case "Len+1":
				return l + 1
			case "Len-1":
				return l - 1
			}
			return -1
		}
		add("Truncate("+k+")", false, func(t *tex.Buffer) string { t.Truncate(arg(t.Len())); return "" }, func(b *bytes.Buffer) string { b.Truncate(arg(b.Len())); return "" })
	}
	add("Reset", false, func(t *tex.Buffer) string { t.Reset(); return "" }, func(b *bytes.Buffer) string { b.Reset(); return "" })
	for _, n := range []int{0, 1, 64, 100, -1} {
		n := n
		add(fmt.Sprintf("Grow(%d)", n), true, func(t *tex.Buffer) string { t.Grow(n); return "" }, func(b *bytes.Buffer) string { b.Grow(n); return "" })
	}
	type rs struct {
		name   string
		chunks []string
		err    error
		neg    bool
	}
	for _, s := range []rs{{"chunks", []string{"ab", "c"}, nil, false}, {"empty", nil, nil, false}, {"err-after-ab", []string{"ab"}, errW, false}, {"negative", nil, nil, true}, {"big", []string{strings.Repeat("q", 600)}, nil, false},
		// terminating errors that merely resemble end-of-stream: only the io.EOF value itself means "done"
		{"err-wrapping-EOF", []string{"ab"}, fmt.Errorf("connection reset: %w", io.EOF), false},
		{"err-is-EOF-by-method", []string{"ab"}, eofLike{}, false},
		{"err-UnexpectedEOF", []string{"ab"}, io.ErrUnexpectedEOF, false},
		{"err-immediately-wrapped-EOF", nil, fmt.Errorf("%w", io.EOF), false}} {
		s := s
		add("ReadFrom("+s.name+")", false, func(t *tex.Buffer) string {
			n, e := t.ReadFrom(&scriptedReader{chunks: append([]string(nil), s.chunks...), err: s.err, neg: s.neg})
			return fmt.Sprint(n, errStr(e))
		},
			func(b *bytes.Buffer) string {
				n, e := b.ReadFrom(&scriptedReader{chunks: append([]string(nil), s.chunks...), err: s.err, neg: s.neg})
				return fmt.Sprint(n, errStr(e))
			})
	}
	for _, m := range []string{"full", "short", "err", "over"} {
		m := m
		add("WriteTo("+m+")", false, func(t *tex.Buffer) string {
			w := &scriptedWriter{mode: m}
			n, e := t.WriteTo(w)
			return fmt.Sprintf("%d %s %q", n, errStr(e), w.got)
		},
			func(b *bytes.Buffer) string {
				w := &scriptedWriter{mode: m}
				n, e := b.WriteTo(w)
				return fmt.Sprintf("%d %s %q", n, errStr(e), w.got)
			})
	}
	return o
}

// opsLarge: a second, small alphabet whose sizes straddle the growth machinery (MinRead = 512, the
// slide-down at off > cap/2, doubling at 2*cap+n, the 64-byte small-buffer bootstrap): payload bytes
// differ by position, so stale or misplaced bytes show up in the contents.
func opsLarge() []seq.Op[*pair] {
	var o []seq.Op[*pair]
	add := func(name string, ft func(t *tex.Buffer) string, fb func(b *bytes.Buffer) string) {
		o = append(o, seq.Op[*pair]{Name: name, Step: func(p *pair) (string, string) {
			return p.both(name, func() string { return ft(p.t) }, func() string { return fb(p.b) })
		}})
	}
	pay := func(n int, salt byte) string {
		b := make([]byte, n)
		for i := range b {
			b[i] = 'a' + byte((i*7+int(salt))%26)
		}
		return string(b)
	}
	for i, n := range []int{1, 300, 516, 1010} {
		pl := pay(n, byte(i))
		add(fmt.Sprintf("Write(%d bytes)", n), func(t *tex.Buffer) string { k, e := t.Write([]byte(pl)); return fmt.Sprint(k, errStr(e)) }, func(b *bytes.Buffer) string { k, e := b.Write([]byte(pl)); return fmt.Sprint(k, errStr(e)) })
	}
	for _, n := range []int{1, 200, 515, 1000} {
		n := n
		add(fmt.Sprintf("Next(%d)", n), func(t *tex.Buffer) string { return fmt.Sprintf("%q", t.Next(n)) }, func(b *bytes.Buffer) string { return fmt.Sprintf("%q", b.Next(n)) })
	}
	for i, ch := range [][]int{{1}, {20}, {511}, {512}, {513}, {300, 300}, {1010}, {1, 1, 1}} {
		var chunks []string
		for j, n := range ch {
			chunks = append(chunks, strings.ToUpper(pay(n, byte(i+j))))
		}
		add(fmt.Sprintf("ReadFrom(chunks %v)", ch), func(t *tex.Buffer) string {
			n, e := t.ReadFrom(&scriptedReader{chunks: append([]string(nil), chunks...)})
			return fmt.Sprint(n, errStr(e))
		}, func(b *bytes.Buffer) string {
			n, e := b.ReadFrom(&scriptedReader{chunks: append([]string(nil), chunks...)})
			return fmt.Sprint(n, errStr(e))
		})
	}
	for _, n := range []int{1, 512, 600} {
		n := n
		add(fmt.Sprintf("Grow(%d)", n), func(t *tex.Buffer) string { t.Grow(n); return "" }, func(b *bytes.Buffer) string { b.Grow(n); return "" })
	}
	add("Read(600)", func(t *tex.Buffer) string {
		p := make([]byte, 600)
		k, e := t.Read(p)
		return fmt.Sprintf("%d %s %q", k, errStr(e), p[:max(k, 0)])
	}, func(b *bytes.Buffer) string {
		p := make([]byte, 600)
		k, e := b.Read(p)
		return fmt.Sprintf("%d %s %q", k, errStr(e), p[:max(k, 0)])
	})
	add("Truncate(Len-1)", func(t *tex.Buffer) string { t.Truncate(t.Len() - 1); return "" }, func(b *bytes.Buffer) string { b.Truncate(b.Len() - 1); return "" })
	add("Reset", func(t *tex.Buffer) string { t.Reset(); return "" }, func(b *bytes.Buffer) string { b.Reset(); return "" })
	add("WriteTo(full)", func(t *tex.Buffer) string {
		w := &scriptedWriter{mode: "full"}
		n, e := t.WriteTo(w)
		return fmt.Sprintf("%d %s %q", n, errStr(e), w.got)
	}, func(b *bytes.Buffer) string {
		w := &scriptedWriter{mode: "full"}
		n, e := b.WriteTo(w)
		return fmt.Sprintf("%d %s %q", n, errStr(e), w.got)
	})
	return o
}

// opsRunes: a third alphabet - several KiB consumed in front of multi-byte runes, with every read kind
// followed by its unread - for implementations that compact or slide the consumed prefix away.
func opsRunes() []seq.Op[*pair] {
	var o []seq.Op[*pair]
	add := func(name string, ft func(t *tex.Buffer) string, fb func(b *bytes.Buffer) string) {
		o = append(o, seq.Op[*pair]{Name: name, Step: func(p *pair) (string, string) {
			return p.both(name, func() string { return ft(p.t) }, func() string { return fb(p.b) })
		}})
	}
	for _, n := range []int{4095, 4097, 8193} {
		pl := strings.Repeat("abcdefg", n/7+1)[:n] + "\u4e16\u00e9z"
		add(fmt.Sprintf("Write(%d ascii bytes + 2 runes + z)", n), func(t *tex.Buffer) string { k, e := t.WriteString(pl); return fmt.Sprint(k, errStr(e)) }, func(b *bytes.Buffer) string { k, e := b.WriteString(pl); return fmt.Sprint(k, errStr(e)) })
	}
	for _, n := range []int{1, 4094, 4096, 4097} {
		n := n
		add(fmt.Sprintf("Next(%d)", n), func(t *tex.Buffer) string { return fmt.Sprint(len(t.Next(n))) }, func(b *bytes.Buffer) string { return fmt.Sprint(len(b.Next(n))) })
	}
	add("Read(4096)", func(t *tex.Buffer) string {
		p := make([]byte, 4096)
		k, e := t.Read(p)
		return fmt.Sprint(k, errStr(e))
	}, func(b *bytes.Buffer) string {
		p := make([]byte, 4096)
		k, e := b.Read(p)
		return fmt.Sprint(k, errStr(e))
	})
	add("ReadByte", func(t *tex.Buffer) string { c, e := t.ReadByte(); return fmt.Sprint(c, errStr(e)) }, func(b *bytes.Buffer) string { c, e := b.ReadByte(); return fmt.Sprint(c, errStr(e)) })
	add("ReadRune", func(t *tex.Buffer) string { r, n, e := t.ReadRune(); return fmt.Sprint(r, n, errStr(e)) }, func(b *bytes.Buffer) string { r, n, e := b.ReadRune(); return fmt.Sprint(r, n, errStr(e)) })
	add("UnreadByte", func(t *tex.Buffer) string { return errStr(t.UnreadByte()) }, func(b *bytes.Buffer) string { return errStr(b.UnreadByte()) })
	add("UnreadRune", func(t *tex.Buffer) string { return errStr(t.UnreadRune()) }, func(b *bytes.Buffer) string { return errStr(b.UnreadRune()) })
	add("WriteString(\u00e9)", func(t *tex.Buffer) string { k, e := t.WriteString("\u00e9"); return fmt.Sprint(k, errStr(e)) }, func(b *bytes.Buffer) string { k, e := b.WriteString("\u00e9"); return fmt.Sprint(k, errStr(e)) })
	return o
}

var startsLarge = []start{
	{"zero", func() *pair { return &pair{t: &tex.Buffer{}, b: &bytes.Buffer{}} }},
	{"NewSizedBuffer(1028)", func() *pair { return &pair{t: tex.NewSizedBuffer(1028), b: bytes.NewBuffer(make([]byte, 0, 1028))} }},
	{"NewSizedBuffer(1024)", func() *pair { return &pair{t: tex.NewSizedBuffer(1024), b: bytes.NewBuffer(make([]byte, 0, 1024))} }},
	{"NewSizedBuffer(600)", func() *pair { return &pair{t: tex.NewSizedBuffer(600), b: bytes.NewBuffer(make([]byte, 0, 600))} }},
}

func refState(b *bytes.Buffer) string {
	v := reflect.ValueOf(b).Elem()
	return fmt.Sprintf("%x/%d/%d", v.FieldByName("buf").Bytes(), v.FieldByName("off").Int(), v.FieldByName("lastRead").Int())
}

func key(p *pair) string {
	buf, off, cp, lr := p.t.VerifState()
	// capacity enters the key in classes that decide which growth path the next call takes
	return fmt.Sprintf("%x/%d/%d/%d/%v|%s", buf, off, cp, lr, p.lastGrow, refState(p.b))
}

type start struct {
	name string
	mk   func() *pair
}

var starts = []start{
	{"zero", func() *pair { return &pair{t: &tex.Buffer{}, b: &bytes.Buffer{}} }},
	{"NewBuffer(hello)", func() *pair { return &pair{t: tex.NewBuffer([]byte("hello")), b: bytes.NewBuffer([]byte("hello"))} }},
	{"NewBufferString(aé世\\xff)", func() *pair {
		return &pair{t: tex.NewBufferString("aé世\xff"), b: bytes.NewBufferString("aé世\xff")}
	}},
	{"NewSizedBuffer(8)", func() *pair { return &pair{t: tex.NewSizedBuffer(8), b: bytes.NewBuffer(make([]byte, 0, 8))} }},
	{"NewSizedBuffer(0)", func() *pair { return &pair{t: tex.NewSizedBuffer(0), b: bytes.NewBuffer(make([]byte, 0))} }},
}

// ReWrite / NewSizedBuffer additions: byte-slice model
func rewriteFamily(c *seq.Ctx) {
	contents := []string{"", "a", "hello", strings.Repeat("k", 70)}
	pats := []string{"", "X", "XYZ", strings.Repeat("W", 80)}
	for _, ct := range contents {
		for _, pre := range []int{0, 1} { // pre: number of bytes read before (off>0 addresses the underlying buffer)
			for pos := -1; pos <= len(ct)+1; pos++ {
				for _, pt := range pats {
					b := tex.NewBufferString(ct)
					if pre > len(ct) {
						continue
					}
					b.Next(pre)
					model := []byte(ct)
					want := call(func() string { copy(model[pos:], pt); return string(model[pre:]) })
					got := call(func() string { b.ReWrite(pos, []byte(pt)); return b.String() })
					bad := ""
					if want != got {
						bad = fmt.Sprintf("ReWrite(%d,%q) on %q after reading %d: got %q want %q", pos, pt, ct, pre, got, want)
					}
					c.Case(fmt.Sprintf("rewrite/%v/%v", strings.HasPrefix(got, "PANIC"), pos >= len(ct)), bad, "ReWrite does not overwrite exactly the addressed bytes", func() interface{} { return fmt.Sprintf("ReWrite(%d,%q) on %q", pos, pt, ct) })
				}
			}
		}
	}
	for _, n := range []int{0, 1, 7, 64, 65, 1000} {
		b := tex.NewSizedBuffer(n)
		bad := ""
		if b.Len() != 0 || b.Cap() < n || b.String() != "" {
			bad = fmt.Sprintf("NewSizedBuffer(%d): len=%d cap=%d", n, b.Len(), b.Cap())
		}
		b.WriteString("abc")
		if bad == "" && b.String() != "abc" {
			bad = fmt.Sprintf("NewSizedBuffer(%d) then WriteString(abc): %q", n, b.String())
		}
		c.Case(fmt.Sprintf("sized/%d", n), bad, "NewSizedBuffer is not an empty buffer of the requested capacity", func() interface{} { return fmt.Sprintf("NewSizedBuffer(%d)", n) })
	}
}

func main() {
	r := ev.Start("C11")
	r.Rule("breadth-first over all operation sequences (alphabet of ~55 calls incl. invalid arguments, scripted readers/writers) applied to tex.Buffer and the toolchain's bytes.Buffer side by side from five constructor start states, and over a second alphabet of 24 calls whose sizes straddle the growth machinery (1..1010-byte writes, Next 1..1000, ReadFrom with 1..1010-byte chunkings around MinRead=512, Grow 1/512/600) from zero and 600/1024/1028-byte sized buffers, and a third alphabet of 14 calls (4-8 KiB writes ending in multi-byte runes, Next/Read of 1..4097 bytes, ReadByte/ReadRune and their unreads) to depth 4/6; states merged only when the complete private state of BOTH buffers (contents incl. consumed prefix, offset, lastRead, capacity) is equal; distinct = distinct (op, observation) pairs")
	r.Assume("bytes.Buffer of the installed toolchain is the reference", "UnreadByte/UnreadRune directly after Grow and Cap() are not compared (property's own exclusion)")
	depth := r.Pick(4, 5)
	var jobs []func()
	for _, st := range starts {
		st := st
		jobs = append(jobs, func() {
			if !r.Want(st.name) {
				return
			}
			seq.Explore(r, &seq.Spec[*pair]{Name: "buffer/" + st.name, Ops: ops(r.Quick()), New: st.mk, Key: key, Depth: depth, MaxViolations: 30, Sig: func(path []string, msg string) string { return path[len(path)-1] + " differs from bytes.Buffer" }})
		})
	}
	for _, st := range startsLarge {
		st := st
		jobs = append(jobs, func() {
			if !r.Want("large/" + st.name) {
				return
			}
			seq.Explore(r, &seq.Spec[*pair]{Name: "buffer-large/" + st.name, Ops: opsLarge(), New: st.mk, Key: key, Depth: r.Pick(4, 5), MaxViolations: 30, Sig: func(path []string, msg string) string { return path[len(path)-1] + " differs from bytes.Buffer" }})
		})
	}
	jobs = append(jobs, func() {
		if r.Want("runes") {
			seq.Explore(r, &seq.Spec[*pair]{Name: "buffer-runes-behind-a-long-prefix/zero", Ops: opsRunes(), New: startsLarge[0].mk, Key: key, Depth: r.Pick(4, 6), MaxViolations: 30, Sig: func(path []string, msg string) string { return path[len(path)-1] + " differs from bytes.Buffer" }})
		}
	})
	jobs = append(jobs, func() { seq.RunFamily(r, seq.Family{Name: "rewrite+sized", Run: rewriteFamily}) })
	seq.Parallel(8, jobs)
	r.Finish()
}
