// C06 (concurrent clause): ids stay unique and ordered when several goroutines call the generators
// while the clock moves (or does not) between any two steps.
package main

import (
	"fmt"
	"time"

	"github.com/pinealctx/neptune/idgen/nano"
	"github.com/pinealctx/neptune/idgen/snowflake"
	"github.com/pinealctx/neptune/zverif/vsync"
	"github.com/pinealctx/neptune/zverif/vtime"

	"verifh/ev"
	"verifh/mc"
)

type call struct {
	inv, ret int
	id       int64
	thread   int
}

func judge(w *mc.World, calls []call, what string) {
	seen := map[int64]bool{}
	last := map[int]int64{}
	for _, c := range calls {
		if seen[c.id] {
			w.Failf("%s issued id %d twice to concurrent callers", what, c.id)
		}
		seen[c.id] = true
		if l, ok := last[c.thread]; ok && c.id <= l {
			w.Failf("%s: thread %d received id %d after %d", what, c.thread, c.id, l)
		}
		last[c.thread] = c.id
	}
	for _, a := range calls {
		for _, b := range calls {
			if a.ret < b.inv && a.id >= b.id {
				w.Failf("%s: a call that returned id %d finished before the call that returned id %d was issued", what, a.id, b.id)
			}
		}
	}
}

func scenario(kind string, threads, per int, fine bool, pb, dev [2]int) *mc.Scenario {
	return &mc.Scenario{Name: fmt.Sprintf("%s/threads=%d/calls=%d/fine=%v", kind, threads, per, fine), PB: pb, Dev: dev, Fine: fine, Main: func(w *mc.World) {
		var clockMs int64 = 1700000000000
		// every clock reading is an environment answer: 0 = unchanged, 1 = +1 ms, 2 = -1 ms (wall clock only)
		read := func(allowBack bool) time.Time {
			n := 2
			if allowBack {
				n = 3
			}
			switch vsync.Choose(n) {
			case 1:
				clockMs++
			case 2:
				clockMs--
			}
			return time.UnixMilli(clockMs)
		}
		var gen func() int64
		switch kind {
		case "HardNode":
			restore := snowflake.VerifSetNow(func() time.Time { return read(true) })
			defer restore()
			n, _ := snowflake.NewNode(3, 0)
			gen = n.Generate
		case "MonoNode":
			vtime.NowFn = func() time.Time { return read(false) }
			defer func() { vtime.NowFn = nil }()
			n, _ := snowflake.NewMonoNode(3)
			gen = n.Generate
		default:
			vtime.NowFn = func() time.Time { return read(true) }
			defer func() { vtime.NowFn = nil }()
			g := nano.NewUnixNanoID(0)
			gen = g.GenID
		}
		var clk mc.Clock
		var calls []call
		for ti := 0; ti < threads; ti++ {
			ti := ti
			w.Go(fmt.Sprintf("T%d", ti), func() {
				for i := 0; i < per; i++ {
					w.Touch()
					inv := clk.Tick()
					id := gen()
					w.Touch()
					calls = append(calls, call{inv, clk.Tick(), id, ti})
				}
			})
		}
		w.Join()
		w.Touch()
		judge(w, calls, kind)
		w.Obs("n=%d", len(calls))
	}}
}

func main() {
	r := ev.Start("C06")
	var scs []*mc.Scenario
	for _, k := range []string{"HardNode", "MonoNode", "UnixNanoID"} {
		scs = append(scs,
			scenario(k, 3, 2, false, [2]int{2, 3}, [2]int{2, 3}),
			scenario(k, 2, 2, true, [2]int{2, 2}, [2]int{1, 2}),
			scenario(k, 3, 1, true, [2]int{2, 2}, [2]int{1, 2}))
	}
	mc.Main(r, scs)
}
