// Package ev is the reporting side of every check: it collects coverage counters, violations,
// known findings, writes /verif/evidence/<id>.json and replay files, prints the interface lines and
// decides the exit code.
package ev

import (
	"bufio"
	"crypto/sha1"
	"encoding/hex"
	"encoding/json"
	"flag"
	"fmt"
	"os"
	"path/filepath"
	"sort"
	"strconv"
	"strings"
	"sync"
	"time"
)

// Violation is one failing case.
type Violation struct {
	// Signature identifies the failing case canonically (scenario + minimal op list / input class).
	// known_findings.jsonl entries match on it.
	Signature string `json:"signature"`
	// Scenario names the harness scenario / family the case belongs to.
	Scenario string `json:"scenario"`
	// What: human readable description (observed vs expected).
	What string `json:"what"`
	// Replay holds whatever the check needs to replay the case (choice sequence, op list, input).
	Replay interface{} `json:"replay,omitempty"`
	// GoTest optional ready-to-paste plain test.
	GoTest string `json:"go_test,omitempty"`
}

// Part is the per-scenario (or per-family) breakdown kept in evidence.
type Part struct {
	Name        string  `json:"name"`
	Evaluations int64   `json:"evaluations"`
	States      int64   `json:"states"`
	Transitions int64   `json:"transitions"`
	Outcomes    int64   `json:"distinct_outcomes"`
	Exhaustive  bool    `json:"exhaustive"`
	Bound       string  `json:"bound,omitempty"`
	Note        string  `json:"note,omitempty"`
	Blocked     bool    `json:"some_thread_blocked,omitempty"`
	WallS       float64 `json:"wall_s,omitempty"`
}

// Run is the state of one check invocation.
type Run struct {
	ID         string
	Tier       string
	Seed       int64
	ReplayPath string
	Shard      string
	Only       string
	start      time.Time
	Deadline   time.Time

	mu            sync.Mutex
	parts         []Part
	samples       []interface{}
	violations    []Violation
	seenSig       map[string]bool
	rule          string
	assumptions   []string
	extra         map[string]interface{}
	notExhaustive []string
	vacuous       []string
}

var verifDir = func() string {
	if d := os.Getenv("VERIF_DIR"); d != "" {
		return d
	}
	return "/verif"
}()

// Dir returns the /verif directory.
func Dir() string { return verifDir }

// Start parses the common flags.
func Start(id string) *Run {
	r := &Run{ID: id, start: time.Now(), seenSig: map[string]bool{}, extra: map[string]interface{}{}}
	tier := flag.String("tier", "", "quick|thorough")
	replay := flag.String("replay", "", "replay file")
	shard := flag.String("shard", "", "internal: worker shard spec")
	only := flag.String("only", "", "substring filter on scenario names (debugging; marks run non-exhaustive)")
	budget := flag.Duration("budget", 0, "internal deadline override")
	flag.Parse()
	r.Tier = *tier
	if r.Tier == "" {
		r.Tier = os.Getenv("VERIF_TIER")
	}
	if r.Tier != "thorough" {
		r.Tier = "quick"
	}
	if s := os.Getenv("VERIF_SEED"); s != "" {
		r.Seed, _ = strconv.ParseInt(s, 10, 64)
	}
	r.ReplayPath = *replay
	r.Shard = *shard
	r.Only = *only
	d := *budget
	if d == 0 {
		if r.Tier == "quick" {
			d = 70 * time.Second
		} else {
			d = 25 * time.Minute
		}
	}
	r.Deadline = r.start.Add(d)
	return r
}

// Quick reports whether this is the quick tier.
func (r *Run) Quick() bool { return r.Tier == "quick" }

// Pick returns q in the quick tier and t in the thorough tier.
func (r *Run) Pick(q, t int) int {
	if r.Quick() {
		return q
	}
	return t
}

// Expired reports whether the internal deadline has passed.
func (r *Run) Expired() bool { return time.Now().After(r.Deadline) }

// Want reports whether a scenario name passes the --only filter.
func (r *Run) Want(name string) bool {
	if r.Only == "" {
		return true
	}
	for _, f := range strings.Split(r.Only, ",") {
		if strings.Contains(name, f) {
			return true
		}
	}
	return false
}

// Rule sets the text describing enumeration and non-triviality.
func (r *Run) Rule(s string) { r.rule = s }

// Assume records an assumption.
func (r *Run) Assume(s ...string) { r.assumptions = append(r.assumptions, s...) }

// Extra records an extra coverage key.
func (r *Run) Extra(k string, v interface{}) {
	r.mu.Lock()
	r.extra[k] = v
	r.mu.Unlock()
}

// AddPart records a per-scenario breakdown.
func (r *Run) AddPart(p Part) {
	r.mu.Lock()
	r.parts = append(r.parts, p)
	if !p.Exhaustive {
		r.notExhaustive = append(r.notExhaustive, p.Name)
	}
	if p.Outcomes <= 1 && p.Evaluations > 1 && !p.Blocked {
		r.vacuous = append(r.vacuous, p.Name)
	}
	r.mu.Unlock()
}

// Sample records an example case (kept to a small number).
func (r *Run) Sample(s interface{}) {
	r.mu.Lock()
	if len(r.samples) < 12 {
		r.samples = append(r.samples, s)
	}
	r.mu.Unlock()
}

// Violate records a violation (deduplicated by signature).
func (r *Run) Violate(v Violation) {
	r.mu.Lock()
	defer r.mu.Unlock()
	if r.seenSig[v.Signature] {
		return
	}
	r.seenSig[v.Signature] = true
	r.violations = append(r.violations, v)
}

// NViolations returns the number of distinct violations so far.
func (r *Run) NViolations() int {
	r.mu.Lock()
	defer r.mu.Unlock()
	return len(r.violations)
}

// Violations returns a copy of the violations recorded so far.
func (r *Run) Violations() []Violation {
	r.mu.Lock()
	defer r.mu.Unlock()
	return append([]Violation(nil), r.violations...)
}

// Parts returns a copy of the parts recorded so far.
func (r *Run) Parts() []Part {
	r.mu.Lock()
	defer r.mu.Unlock()
	return append([]Part(nil), r.parts...)
}

// Samples returns the samples.
func (r *Run) Samples() []interface{} {
	r.mu.Lock()
	defer r.mu.Unlock()
	return append([]interface{}(nil), r.samples...)
}

type finding struct {
	Property  string `json:"property"`
	Status    string `json:"status"` // open | fixed
	Signature string `json:"signature"`
	What      string `json:"what"`
	Commit    string `json:"commit,omitempty"`
}

func loadFindings(id string) []finding {
	f, err := os.Open(filepath.Join(verifDir, "known_findings.jsonl"))
	if err != nil {
		return nil
	}
	defer f.Close()
	var out []finding
	sc := bufio.NewScanner(f)
	sc.Buffer(make([]byte, 1<<20), 1<<20)
	for sc.Scan() {
		line := strings.TrimSpace(sc.Text())
		if line == "" || strings.HasPrefix(line, "#") {
			continue
		}
		var k finding
		if json.Unmarshal([]byte(line), &k) == nil && k.Property == id {
			out = append(out, k)
		}
	}
	return out
}

// WorkerResult is what a worker process hands back to the driver.
type WorkerResult struct {
	Parts      []Part        `json:"parts"`
	Samples    []interface{} `json:"samples"`
	Violations []Violation   `json:"violations"`
}

// EmitWorker prints the worker result as one JSON line prefixed by WORKER-RESULT.
func (r *Run) EmitWorker() {
	b, _ := json.Marshal(WorkerResult{Parts: r.parts, Samples: r.samples, Violations: r.violations})
	fmt.Printf("WORKER-RESULT %s\n", b)
}

// Merge merges a worker result.
func (r *Run) Merge(w WorkerResult) {
	for _, p := range w.Parts {
		r.AddPart(p)
	}
	for _, s := range w.Samples {
		r.Sample(s)
	}
	for _, v := range w.Violations {
		r.Violate(v)
	}
}

// Finish writes evidence, prints the interface lines and exits.
func (r *Run) Finish() { r.Finish0(0) }

// Finish0 is Finish with an exit code to use when no violation is reported (2 = machinery error).
func (r *Run) Finish0(code int) {
	known := loadFindings(r.ID)
	open := map[string]finding{}
	for _, k := range known {
		if k.Status == "open" {
			open[k.Signature] = k
		}
	}
	var evals, states, trans, outcomes int64
	exhaustive := true
	sort.SliceStable(r.parts, func(i, j int) bool { return r.parts[i].Name < r.parts[j].Name })
	for _, p := range r.parts {
		evals += p.Evaluations
		states += p.States
		trans += p.Transitions
		outcomes += p.Outcomes
		if !p.Exhaustive {
			exhaustive = false
		}
	}
	if r.Only != "" {
		exhaustive = false
	}
	var real []Violation
	var knownHit []Violation
	for _, v := range r.violations {
		if _, ok := open[v.Signature]; ok {
			knownHit = append(knownHit, v)
		} else {
			real = append(real, v)
		}
	}
	cov := map[string]interface{}{
		"evaluations":                   evals,
		"distinct_nontrivial":           outcomes,
		"rule":                          r.rule,
		"samples":                       r.samples,
		"states":                        states,
		"transitions":                   trans,
		"traces_validated_against_impl": evals,
		"exhaustive":                    exhaustive,
		"parts":                         r.parts,
		"not_exhaustive_parts":          r.notExhaustive,
		"vacuous_scenarios":             r.vacuous,
		"known_findings_hit":            len(knownHit),
	}
	for k, v := range r.extra {
		cov[k] = v
	}
	if len(r.samples) == 0 {
		cov["samples"] = []interface{}{"(no sample recorded)"}
	}
	evd := map[string]interface{}{
		"property_id": r.ID,
		"tier":        r.Tier,
		"seed":        r.Seed,
		"level":       "model_checking",
		"coverage":    cov,
		"assumptions": r.assumptions,
		"wall_s":      time.Since(r.start).Seconds(),
		"violations":  len(real),
	}
	if r.Only == "" && r.ReplayPath == "" && os.Getenv("VERIF_NO_EVIDENCE") == "" {
		_ = os.MkdirAll(filepath.Join(verifDir, "evidence"), 0o755)
		b, _ := json.MarshalIndent(evd, "", " ")
		tmp := filepath.Join(verifDir, "evidence", r.ID+".json.tmp")
		if err := os.WriteFile(tmp, b, 0o644); err == nil {
			_ = os.Rename(tmp, filepath.Join(verifDir, "evidence", r.ID+".json"))
		}
	}
	fmt.Printf("SUMMARY property=%s tier=%s evaluations=%d states=%d transitions=%d outcomes=%d exhaustive=%v parts=%d wall=%.1fs\n",
		r.ID, r.Tier, evals, states, trans, outcomes, exhaustive, len(r.parts), time.Since(r.start).Seconds())
	for _, v := range knownHit {
		fmt.Printf("KNOWN-FINDING: property=%s %s [%s]\n", r.ID, open[v.Signature].What, v.Signature)
	}
	// an open finding that no longer reproduces is reported (informational, not an alarm)
	hit := map[string]bool{}
	for _, v := range knownHit {
		hit[v.Signature] = true
	}
	for sig := range open {
		if !hit[sig] && r.Only == "" && r.ReplayPath == "" {
			fmt.Printf("NOTE: open known finding did not reproduce in this run: %s\n", sig)
		}
	}
	if len(real) == 0 {
		os.Exit(code)
	}
	dir := filepath.Join(verifDir, "replays", r.ID)
	_ = os.MkdirAll(dir, 0o755)
	for _, v := range real {
		h := sha1.Sum([]byte(v.Signature))
		p := filepath.Join(dir, hex.EncodeToString(h[:6])+".json")
		b, _ := json.MarshalIndent(v, "", " ")
		_ = os.WriteFile(p, b, 0o644)
		fmt.Printf("DETAIL %s: %s :: %s\n", v.Scenario, v.Signature, firstLine(v.What))
		fmt.Printf("VIOLATION property=%s replay=%s\n", r.ID, p)
	}
	os.Exit(1)
}

func firstLine(s string) string {
	if len(s) > 600 {
		s = s[:600] + "…"
	}
	return strings.ReplaceAll(s, "\n", " | ")
}

// LoadReplay reads a replay file.
func LoadReplay(path string) (Violation, error) {
	var v Violation
	b, err := os.ReadFile(path)
	if err != nil {
		return v, err
	}
	err = json.Unmarshal(b, &v)
	return v, err
}
