// C10: bytex typed stream codec round-trips; stream and buffer readers agree (engines H + I).
package main

import (
	"bufio"
	"bytes"
	"crypto/sha1"
	"encoding/binary"
	"fmt"
	"io"
	"math"
	"strings"
	"testing/iotest"

	"github.com/pinealctx/neptune/bytex"

	"verifh/ev"
	"verifh/seq"
)

// item is one typed value with its writer, the two readers and a reference decoder.
type item struct {
	name  string
	write func(b *bytex.BufferX) string                // returns "" or the error text
	readB func(b *bytex.BufferX) (string, error)       // printable value
	readR func(r *bytex.ReaderX) (string, error)       // nil: the stream reader has no such method
	ref   func(in []byte) (val string, n int, ok bool) // reference decoder on raw bytes
	want  string                                       // "" = nothing is written (refused write)
	kind  string
}

func le(in []byte, w int) (uint64, bool) {
	if len(in) < w {
		return 0, false
	}
	var v uint64
	for i := w - 1; i >= 0; i-- {
		v = v<<8 | uint64(in[i])
	}
	return v, true
}

func refFixed(w int, show func(uint64) string) func([]byte) (string, int, bool) {
	return func(in []byte) (string, int, bool) {
		v, ok := le(in, w)
		if !ok {
			return "", 0, false
		}
		return show(v), w, true
	}
}

func refString(limit int64) func([]byte) (string, int, bool) {
	return func(in []byte) (string, int, bool) {
		n, ok := le(in, 4)
		if !ok {
			return "", 0, false
		}
		if limit >= 0 && int64(n) > limit {
			return "", 0, false
		}
		if uint64(len(in)-4) < n {
			return "", 0, false
		}
		return fmt.Sprintf("%q", in[4:4+n]), 4 + int(n), true
	}
}

func refUvar(show func(uint64) string) func([]byte) (string, int, bool) {
	return func(in []byte) (string, int, bool) {
		v, n := binary.Uvarint(in)
		if n <= 0 {
			return "", 0, false
		}
		return show(v), n, true
	}
}

func refVar(show func(int64) string) func([]byte) (string, int, bool) {
	return func(in []byte) (string, int, bool) {
		v, n := binary.Varint(in)
		if n <= 0 {
			return "", 0, false
		}
		return show(v), n, true
	}
}

func items() []item {
	var it []item
	p := fmt.Sprint
	for _, v := range []bool{false, true} {
		v := v
		it = append(it, item{name: p("bool:", v), kind: "bool", want: p(v), write: func(b *bytex.BufferX) string { b.WriteBool(v); return "" },
			readB: func(b *bytex.BufferX) (string, error) { x, e := b.ReadBool(); return p(x), e },
			readR: func(r *bytex.ReaderX) (string, error) { x, e := r.ReadBool(); return p(x), e },
			ref:   refFixed(1, func(u uint64) string { return p(u != 0) })})
	}
	for _, v := range []byte{0, 1, 0x80, 255} {
		v := v
		it = append(it, item{name: p("u8:", v), kind: "u8", want: p(v), write: func(b *bytex.BufferX) string { b.WriteU8(v); return "" },
			readB: func(b *bytex.BufferX) (string, error) { x, e := b.ReadU8(); return p(x), e },
			readR: func(r *bytex.ReaderX) (string, error) { x, e := r.ReadByte(); return p(x), e },
			ref:   refFixed(1, func(u uint64) string { return p(byte(u)) })})
	}
	for _, v := range []uint16{0, 1, 0x1234, 0x8000, 65535} {
		v := v
		it = append(it, item{name: p("u16:", v), kind: "u16", want: p(v), write: func(b *bytex.BufferX) string { b.WriteU16(v); return "" },
			readB: func(b *bytex.BufferX) (string, error) { x, e := b.ReadU16(); return p(x), e },
			readR: func(r *bytex.ReaderX) (string, error) { x, e := r.ReadU16(); return p(x), e },
			ref:   refFixed(2, func(u uint64) string { return p(uint16(u)) })})
	}
	for _, v := range []int16{0, -1, math.MinInt16, math.MaxInt16} {
		v := v
		it = append(it, item{name: p("i16:", v), kind: "i16", want: p(v), write: func(b *bytex.BufferX) string { b.WriteI16(v); return "" },
			readB: func(b *bytex.BufferX) (string, error) { x, e := b.ReadI16(); return p(x), e },
			readR: func(r *bytex.ReaderX) (string, error) { x, e := r.ReadI16(); return p(x), e },
			ref:   refFixed(2, func(u uint64) string { return p(int16(u)) })})
	}
	for _, v := range []uint32{0, 1, 0x12345678, 0x80000000, math.MaxUint32} {
		v := v
		it = append(it, item{name: p("u32:", v), kind: "u32", want: p(v), write: func(b *bytex.BufferX) string { b.WriteU32(v); return "" },
			readB: func(b *bytex.BufferX) (string, error) { x, e := b.ReadU32(); return p(x), e },
			readR: func(r *bytex.ReaderX) (string, error) { x, e := r.ReadU32(); return p(x), e },
			ref:   refFixed(4, func(u uint64) string { return p(uint32(u)) })})
	}
	for _, v := range []int32{0, -1, math.MinInt32, math.MaxInt32} {
		v := v
		it = append(it, item{name: p("i32:", v), kind: "i32", want: p(v), write: func(b *bytex.BufferX) string { b.WriteI32(v); return "" },
			readB: func(b *bytex.BufferX) (string, error) { x, e := b.ReadI32(); return p(x), e },
			readR: func(r *bytex.ReaderX) (string, error) { x, e := r.ReadI32(); return p(x), e },
			ref:   refFixed(4, func(u uint64) string { return p(int32(u)) })})
	}
	for _, v := range []uint64{0, 1, 0x123456789abcdef0, 1 << 63, math.MaxUint64} {
		v := v
		it = append(it, item{name: p("u64:", v), kind: "u64", want: p(v), write: func(b *bytex.BufferX) string { b.WriteU64(v); return "" },
			readB: func(b *bytex.BufferX) (string, error) { x, e := b.ReadU64(); return p(x), e },
			readR: func(r *bytex.ReaderX) (string, error) { x, e := r.ReadU64(); return p(x), e },
			ref:   refFixed(8, func(u uint64) string { return p(u) })})
	}
	for _, v := range []int64{0, -1, math.MinInt64, math.MaxInt64} {
		v := v
		it = append(it, item{name: p("i64:", v), kind: "i64", want: p(v), write: func(b *bytex.BufferX) string { b.WriteI64(v); return "" },
			readB: func(b *bytex.BufferX) (string, error) { x, e := b.ReadI64(); return p(x), e },
			readR: func(r *bytex.ReaderX) (string, error) { x, e := r.ReadI64(); return p(x), e },
			ref:   refFixed(8, func(u uint64) string { return p(int64(u)) })})
	}
	for _, v := range []uint64{0, 1, 127, 128, 16383, 16384, 1 << 32, math.MaxUint64} {
		v := v
		it = append(it, item{name: p("varu64:", v), kind: "varu64", want: p(v), write: func(b *bytex.BufferX) string { b.WriteVarU64(v); return "" },
			readB: func(b *bytex.BufferX) (string, error) { x, e := b.ReadVarU64(); return p(x), e },
			ref:   refUvar(func(u uint64) string { return p(u) })})
	}
	for _, v := range []int64{0, -1, 1, 63, -64, 64, -65, math.MinInt64, math.MaxInt64} {
		v := v
		it = append(it, item{name: p("vari64:", v), kind: "vari64", want: p(v), write: func(b *bytex.BufferX) string { b.WriteVarI64(v); return "" },
			readB: func(b *bytex.BufferX) (string, error) { x, e := b.ReadVarI64(); return p(x), e },
			ref:   refVar(func(u int64) string { return p(u) })})
	}
	for _, v := range []uint32{0, 127, 128, math.MaxUint32} {
		v := v
		it = append(it, item{name: p("varu32:", v), kind: "varu32", want: p(v), write: func(b *bytex.BufferX) string { b.WriteVarU32(v); return "" },
			readB: func(b *bytex.BufferX) (string, error) { x, e := b.ReadVarU32(); return p(x), e },
			ref:   refUvar(func(u uint64) string { return p(uint32(u)) })})
	}
	for _, v := range []int32{0, -1, math.MinInt32, math.MaxInt32} {
		v := v
		it = append(it, item{name: p("vari32:", v), kind: "vari32", want: p(v), write: func(b *bytex.BufferX) string { b.WriteVarI32(v); return "" },
			readB: func(b *bytex.BufferX) (string, error) { x, e := b.ReadVarI32(); return p(x), e },
			ref:   refVar(func(u int64) string { return p(int32(u)) })})
	}
	for _, bits := range []uint64{0, 1 << 63, math.Float64bits(1.5), 0x7ff8000000000001, 0x7ff0000000000001, 0xfff8dead0000beef, math.Float64bits(math.Inf(1)), math.Float64bits(math.Inf(-1)), 1} {
		bits := bits
		sh := func(f float64) string { return fmt.Sprintf("f64bits:%016x", math.Float64bits(f)) }
		it = append(it, item{name: fmt.Sprintf("f64:%016x", bits), kind: "f64", want: sh(math.Float64frombits(bits)), write: func(b *bytex.BufferX) string { b.WriteF64(math.Float64frombits(bits)); return "" },
			readB: func(b *bytex.BufferX) (string, error) { x, e := b.ReadF64(); return sh(x), e },
			readR: func(r *bytex.ReaderX) (string, error) { x, e := r.ReadF64(); return sh(x), e },
			ref:   refFixed(8, func(u uint64) string { return fmt.Sprintf("f64bits:%016x", u) })})
	}
	for _, v := range []string{"", "a", "hé\x00\xff", strings.Repeat("s", 300)} {
		v := v
		nm := v
		if len(nm) > 8 {
			nm = "s*300"
		}
		it = append(it, item{name: fmt.Sprintf("string:%q", nm), kind: "string", want: fmt.Sprintf("%q", v), write: func(b *bytex.BufferX) string { b.WriteString(v); return "" },
			readB: func(b *bytex.BufferX) (string, error) { x, e := b.ReadString(); return fmt.Sprintf("%q", x), e },
			readR: func(r *bytex.ReaderX) (string, error) { x, e := r.ReadString(); return fmt.Sprintf("%q", x), e },
			ref:   refString(-1)})
	}
	for _, v := range []string{"", "ab", "wxyz"} {
		for _, d := range []int{-1, 0, 1} {
			v, lim := v, len(v)+d
			if lim < 0 {
				continue
			}
			want := fmt.Sprintf("%q", v)
			if len(v) > lim {
				want = ""
			}
			it = append(it, item{name: fmt.Sprintf("limitstring:%q/limit=%d", v, lim), kind: "limitstring", want: want,
				write: func(b *bytex.BufferX) string {
					if e := b.WriteLimitString(uint32(lim), v); e != nil {
						return e.Error()
					}
					return ""
				},
				readB: func(b *bytex.BufferX) (string, error) {
					x, e := b.ReadLimitString(uint32(lim))
					return fmt.Sprintf("%q", x), e
				},
				readR: func(r *bytex.ReaderX) (string, error) {
					x, e := r.ReadLimitString(uint32(lim))
					return fmt.Sprintf("%q", x), e
				},
				ref: refString(int64(lim))})
		}
	}
	for _, v := range []string{"x", "xyz"} {
		v := v
		n := len(v)
		refRaw := func(in []byte) (string, int, bool) {
			if len(in) < n {
				return "", 0, false
			}
			return fmt.Sprintf("%q", in[:n]), n, true
		}
		it = append(it, item{name: fmt.Sprintf("raw:%q", v), kind: "rawN", want: fmt.Sprintf("%q", v), write: func(b *bytex.BufferX) string { b.Write([]byte(v)); return "" },
			readB: func(b *bytex.BufferX) (string, error) { x, e := b.ReadN(n); return fmt.Sprintf("%q", x), e },
			readR: func(r *bytex.ReaderX) (string, error) { x, e := r.ReadN(n); return fmt.Sprintf("%q", x), e },
			ref:   refRaw})
		it = append(it, item{name: fmt.Sprintf("rawZ:%q", v), kind: "rawZ", want: fmt.Sprintf("%q", v), write: func(b *bytex.BufferX) string { b.Write([]byte(v)); return "" },
			readB: func(b *bytex.BufferX) (string, error) { x, e := b.ZReadN(n); return fmt.Sprintf("%q", x), e },
			readR: func(r *bytex.ReaderX) (string, error) { x, e := r.ZReadN(n); return fmt.Sprintf("%q", x), e },
			ref:   refRaw})
	}
	return it
}

func guard(f func() (string, error)) (v string, err error, pan string) {
	defer func() {
		if r := recover(); r != nil {
			pan = fmt.Sprint(r)
		}
	}()
	v, err = f()
	return
}

var makers = []struct {
	name string
	mk   func() *bytex.BufferX
}{
	{"NewBufferX", bytex.NewBufferX},
	{"NewSizedBufferX(0)", func() *bytex.BufferX { return bytex.NewSizedBufferX(0) }},
	{"NewSizedBufferX(3)", func() *bytex.BufferX { return bytex.NewSizedBufferX(3) }},
}

// round trip of one write sequence through the three read paths
func roundTrip(c *seq.Ctx, its []item, sq []int) {
	for _, mk := range makers[:1+len(sq)%len(makers)] {
		b := mk.mk()
		var names []string
		refused := make([]bool, len(sq))
		for k, i := range sq {
			names = append(names, its[i].name)
			e := its[i].write(b)
			if (e != "") != (its[i].want == "") {
				c.Case("rt/write-err", fmt.Sprintf("%v: write of %s returned %q", names, its[i].name, e), its[i].kind+" write refusal wrong", func() interface{} { return names })
				return
			}
			refused[k] = e != ""
		}
		enc := append([]byte(nil), b.Bytes()...)
		// the encoding must be what the reference decoders accept item by item
		rest := enc
		for k, i := range sq {
			if refused[k] {
				continue
			}
			v, n, ok := its[i].ref(rest)
			if !ok || v != its[i].want {
				c.Case("rt/enc", fmt.Sprintf("%v: encoding % x of %s is not the documented little-endian/varint/length-prefixed form (reference decodes %q ok=%v)", names, enc, its[i].name, v, ok), its[i].kind+" encoding wrong", func() interface{} { return names })
				return
			}
			rest = rest[n:]
		}
		if len(rest) != 0 {
			c.Case("rt/enc", fmt.Sprintf("%v: %d stray bytes in encoding", names, len(rest)), "stray bytes written", func() interface{} { return names })
			return
		}
		type path struct {
			name string
			rd   func(it *item) (string, error, string, bool)
			left func() int
		}
		rb := bytex.NewReadableBufferX(append([]byte(nil), enc...))
		src := &fragReader{data: enc, sizes: nil}
		rx := bytex.NewReaderX(src)
		paths := []path{
			{"same-buffer", func(it *item) (string, error, string, bool) {
				v, e, p := guard(func() (string, error) { return it.readB(b) })
				return v, e, p, true
			}, b.Len},
			{"readable-buffer", func(it *item) (string, error, string, bool) {
				v, e, p := guard(func() (string, error) { return it.readB(rb) })
				return v, e, p, true
			}, rb.Len},
			{"stream-reader", func(it *item) (string, error, string, bool) {
				if it.readR == nil {
					return "", nil, "", false
				}
				v, e, p := guard(func() (string, error) { return it.readR(rx) })
				return v, e, p, true
			}, func() int { return len(src.data) - src.pos }},
		}
		for _, pa := range paths {
			okPath := true
			for k, i := range sq {
				if refused[k] {
					continue
				}
				v, e, pn, sup := pa.rd(&its[i])
				if !sup {
					okPath = false
					break
				}
				if pn != "" || e != nil || v != its[i].want {
					c.Case("rt/read", fmt.Sprintf("%s via %s (%s): wrote %v, read #%d %s -> value %s err %v panic %q, want %s", mk.name, pa.name, its[i].kind, names, k, its[i].name, v, e, pn, its[i].want),
						its[i].kind+" does not read back via "+pa.name, func() interface{} { return names })
					return
				}
			}
			if okPath && pa.left() != 0 {
				c.Case("rt/left", fmt.Sprintf("%s via %s: wrote %v, read all back, %d bytes left", mk.name, pa.name, names, pa.left()), "buffer not empty after reading everything back via "+pa.name, func() interface{} { return names })
				return
			}
		}
		c.Case("rt/ok/"+fmt.Sprint(len(sq)), "", "", func() interface{} { return names })
	}
}

// fragReader delivers data in the given chunk sizes; the last chunk returns (n, io.EOF) if eofWithData.
type fragReader struct {
	data        []byte
	pos         int
	sizes       []int
	k           int
	eofWithData bool
}

func (f *fragReader) Read(p []byte) (int, error) {
	if f.pos >= len(f.data) {
		return 0, io.EOF
	}
	n := len(f.data) - f.pos
	if f.k < len(f.sizes) {
		if f.sizes[f.k] < n {
			n = f.sizes[f.k]
		}
	}
	if n > len(p) {
		// the caller asked for less than the chunk: hand out what fits, keep the rest of this chunk
		if f.k < len(f.sizes) {
			f.sizes[f.k] -= len(p)
		}
		n = len(p)
	} else {
		f.k++
	}
	copy(p, f.data[f.pos:f.pos+n])
	f.pos += n
	if f.pos >= len(f.data) && f.eofWithData {
		return n, io.EOF
	}
	return n, nil
}

// hostile inputs: each reader method on arbitrary bytes; buffer vs reference, stream vs buffer
func hostile(c *seq.Ctx, its []item, inputs [][]byte) {
	// one representative reader per kind (and per limit for limit strings)
	seen := map[string]bool{}
	for idx := range its {
		it := &its[idx]
		k := it.kind
		if k == "limitstring" || k == "rawN" || k == "rawZ" {
			k = it.name[strings.Index(it.name, ":"):]
			if i := strings.Index(it.name, "/limit="); i >= 0 {
				k = it.name[i:]
			} else {
				k = fmt.Sprint(it.kind, len(it.want))
			}
		}
		if seen[k] {
			continue
		}
		seen[k] = true
		for _, in := range inputs {
			if c.Expired() {
				return
			}
			wantV, _, wantOK := it.ref(in)
			b := bytex.NewReadableBufferX(append([]byte(nil), in...))
			v, e, pn := guard(func() (string, error) { return it.readB(b) })
			bad, sig := "", ""
			switch {
			case pn != "":
				bad, sig = fmt.Sprintf("BufferX %s on % x panicked: %s", it.kind, in, pn), "BufferX "+it.kind+" panics on hostile input"
			case wantOK && (e != nil || v != wantV):
				bad, sig = fmt.Sprintf("BufferX %s on % x = %s err %v; the bytes suffice and denote %s", it.kind, in, v, e, wantV), "BufferX "+it.kind+" mis-decodes sufficient bytes"
			case !wantOK && e == nil:
				bad, sig = fmt.Sprintf("BufferX %s on % x returned value %s without error although the bytes do not hold one", it.kind, in, v), "BufferX "+it.kind+" returns a value from insufficient bytes"
			}
			c.Case(fmt.Sprintf("hostile/B/%s/%v", it.kind, wantOK), bad, sig, func() interface{} { return fmt.Sprintf("%s on % x", it.name, in) })
			if it.readR == nil {
				continue
			}
			if (it.kind == "string" || it.kind == "limitstring") && len(in) >= 4 && binary.LittleEndian.Uint32(in) > 1<<16 {
				// the stream reader allocates the announced length before reading: a 4 GiB prefix is a
				// resource question, not part of the statement, and is kept out of the loop
				continue
			}
			for _, eofStyle := range []bool{false, true} {
				r := bytex.NewReaderX(&fragReader{data: in, eofWithData: eofStyle})
				v2, e2, pn2 := guard(func() (string, error) { return it.readR(r) })
				bad, sig = "", ""
				switch {
				case pn2 != "":
					bad, sig = fmt.Sprintf("ReaderX %s on % x panicked: %s", it.kind, in, pn2), "ReaderX "+it.kind+" panics on hostile input"
				case (e2 == nil) != (e == nil) || (e == nil && v2 != v):
					bad, sig = fmt.Sprintf("ReaderX %s on % x (unfragmented, eofWithData=%v) = %s err %v; BufferX = %s err %v", it.kind, in, eofStyle, v2, e2, v, e), "ReaderX "+it.kind+" disagrees with BufferX on unfragmented input"
				}
				c.Case(fmt.Sprintf("hostile/R/%s/%v", it.kind, e == nil), bad, sig, func() interface{} { return fmt.Sprintf("%s on % x", it.name, in) })
			}
		}
	}
}

func compositions(n int, f func(sizes []int)) {
	if n == 0 {
		f(nil)
		return
	}
	// 2^(n-1) compositions
	for mask := 0; mask < 1<<(n-1); mask++ {
		var sizes []int
		cur := 1
		for i := 0; i < n-1; i++ {
			if mask>>i&1 == 1 {
				sizes = append(sizes, cur)
				cur = 1
			} else {
				cur++
			}
		}
		sizes = append(sizes, cur)
		f(sizes)
	}
}

// stream == buffer under every fragmentation
func fragmentation(c *seq.Ctx, its []item, maxLen int) {
	// programs: one or two stream-readable items whose encoding fits maxLen, plus every truncation
	var progs [][]int
	for i := range its {
		if its[i].readR == nil || its[i].want == "" {
			continue
		}
		progs = append(progs, []int{i})
	}
	n1 := len(progs)
	for a := 0; a < n1; a++ {
		for bb := 0; bb < n1; bb++ {
			if (a+bb)%3 == 0 { // a third of the pairs keeps the family small; every item appears in both positions
				progs = append(progs, []int{progs[a][0], progs[bb][0]})
			}
		}
	}
	for _, pr := range progs {
		b := bytex.NewBufferX()
		var names []string
		for _, i := range pr {
			its[i].write(b)
			names = append(names, its[i].name)
		}
		enc := append([]byte(nil), b.Bytes()...)
		if len(enc) > maxLen {
			continue
		}
		for cut := 0; cut <= len(enc); cut++ {
			in := enc[:cut]
			// what the buffer reader decodes from these bytes
			rb := bytex.NewReadableBufferX(append([]byte(nil), in...))
			var wantV []string
			var wantE []bool
			for _, i := range pr {
				v, e, _ := guard(func() (string, error) { return its[i].readB(rb) })
				wantV = append(wantV, v)
				wantE = append(wantE, e != nil)
				if e != nil {
					break
				}
			}
			compositions(len(in), func(sizes []int) {
				if c.Expired() {
					return
				}
				for _, eofStyle := range []bool{false, true} {
					r := bytex.NewReaderX(&fragReader{data: in, sizes: append([]int(nil), sizes...), eofWithData: eofStyle})
					bad := ""
					for k, i := range pr {
						if k >= len(wantV) {
							break
						}
						v, e, pn := guard(func() (string, error) { return its[i].readR(r) })
						if pn != "" || (e != nil) != wantE[k] || (e == nil && v != wantV[k]) {
							bad = fmt.Sprintf("bytes % x (encoding of %v cut at %d) delivered in chunks %v (eofWithData=%v): ReaderX read #%d (%s) = %s err %v panic %q; BufferX = %s err=%v",
								in, names, cut, sizes, eofStyle, k, its[i].kind, v, e, pn, wantV[k], wantE[k])
							break
						}
						if e != nil {
							break
						}
					}
					cls := "whole"
					if len(sizes) > 1 {
						cls = "fragmented"
					}
					sig := "ReaderX disagrees with BufferX when the source reader fragments (" + cls + ", eofWithData=" + fmt.Sprint(eofStyle) + ")"
					c.Case(fmt.Sprintf("frag/%s/%v/%v", cls, eofStyle, cut == len(enc)), bad, sig, func() interface{} {
						return map[string]interface{}{"items": names, "cut": cut, "chunks": sizes, "eofWithData": eofStyle}
					})
				}
			})
		}
	}
}

// in-place rewrite against a byte-slice model
func rewrite(c *seq.Ctx, its []item) {
	pats := [][]byte{{}, {0xAA}, {1, 2, 3}, {9, 8, 7, 6, 5}}
	for i := range its {
		for j := range its {
			if (i+j)%2 == 1 {
				continue
			}
			for consumed := 0; consumed < 2; consumed++ {
				b := bytex.NewBufferX()
				its[i].write(b)
				its[j].write(b)
				if consumed == 1 {
					if b.Len() == 0 {
						continue
					}
					_, _ = b.ReadU8()
				}
				base := append([]byte(nil), b.Bytes()...)
				for pos := 0; pos <= len(base); pos++ {
					for _, pt := range pats {
						if pos+len(pt) > len(base) {
							continue
						}
						bb := bytex.NewReadableBufferX(append([]byte(nil), base...))
						model := append([]byte(nil), base...)
						copy(model[pos:], pt)
						bb.ReWrite(pos, pt)
						bad := ""
						if string(bb.Bytes()) != string(model) {
							bad = fmt.Sprintf("ReWrite(%d, % x) on % x gave % x want % x", pos, pt, base, bb.Bytes(), model)
						}
						c.Case("rewrite/bytes", bad, "ReWrite does not change exactly the addressed bytes", func() interface{} { return fmt.Sprintf("ReWrite(%d,% x) on % x", pos, pt, base) })
					}
					if pos+4 <= len(base) {
						for _, v := range []uint32{0, 0xdeadbeef, math.MaxUint32} {
							bb := bytex.NewReadableBufferX(append([]byte(nil), base...))
							model := append([]byte(nil), base...)
							binary.LittleEndian.PutUint32(model[pos:], v)
							bb.ReWriteU32(pos, v)
							bad := ""
							if string(bb.Bytes()) != string(model) {
								bad = fmt.Sprintf("ReWriteU32(%d, %#x) on % x gave % x want % x", pos, v, base, bb.Bytes(), model)
							}
							c.Case("rewrite/u32", bad, "ReWriteU32 does not change exactly the addressed bytes", func() interface{} { return fmt.Sprintf("ReWriteU32(%d,%#x) on % x", pos, v, base) })
						}
					}
				}
			}
		}
	}
}

func hostileInputs(its []item, maxLen int) [][]byte {
	var out [][]byte
	alpha := []byte{0x00, 0x01, 0x7f, 0x80, 0xff}
	var rec func(cur []byte, n int)
	rec = func(cur []byte, n int) {
		out = append(out, append([]byte(nil), cur...))
		if n == 0 {
			return
		}
		for _, a := range alpha {
			rec(append(cur, a), n-1)
		}
	}
	rec(nil, maxLen)
	// every truncation of every valid encoding, and each encoding followed by a stray byte
	for i := range its {
		b := bytex.NewBufferX()
		if its[i].write(b) != "" {
			continue
		}
		enc := append([]byte(nil), b.Bytes()...)
		for cut := 0; cut <= len(enc); cut++ {
			out = append(out, append([]byte(nil), enc[:cut]...))
		}
		out = append(out, append(append([]byte(nil), enc...), 0x5a))
	}
	// long varints and length prefixes around the available length
	for _, l := range []int{9, 10, 11} {
		v := make([]byte, l)
		for i := range v {
			v[i] = 0xff
		}
		out = append(out, append([]byte(nil), v...))
		v[l-1] = 0x01
		out = append(out, append([]byte(nil), v...))
		v[l-1] = 0x02
		out = append(out, v)
	}
	for _, n := range []uint32{0, 1, 2, 3, 4, 5, 0xffff} {
		for _, have := range []int{0, 1, 2, 3, 4} {
			v := make([]byte, 4+have)
			binary.LittleEndian.PutUint32(v, n)
			for i := 4; i < len(v); i++ {
				v[i] = 'a' + byte(i)
			}
			out = append(out, v)
		}
	}
	return out
}

// ownedResults: what the copying readers hand out belongs to the caller.  ReadN (the counterpart of the
// documented no-copy ZReadN) of BufferX and of ReaderX is kept while the buffer goes on being used -
// drained, Reset, refilled, grown past its capacity, the slice given to NewReadableBufferX overwritten -
// and must still hold the bytes that were read, which is what ReaderX.ReadN over the same bytes returns.
// Sizes n x bytes left unread k x a consumed prefix x constructor x what happens afterwards.
func ownedResults(c *seq.Ctx) {
	pat := func(n int, salt byte) []byte {
		b := make([]byte, n)
		for i := range b {
			b[i] = byte(i*7) + salt
		}
		return b
	}
	afters := []string{"reset+write", "drain+write", "grow", "reset+grow", "overwrite-source", "cycles"}
	for _, n := range []int{1, 2, 5, 63, 64, 65, 300, 4096, 70000} {
		for _, k := range []int{0, 1, 9} {
			for _, prefix := range []int{0, 4} {
				for _, ctor := range []string{"NewBufferX", "NewSizedBufferX(exact)", "NewSizedBufferX(0)", "NewReadableBufferX"} {
					for _, after := range afters {
						if after == "overwrite-source" && ctor != "NewReadableBufferX" {
							continue
						}
						total := prefix + n + k
						src := pat(total, 1)
						want := append([]byte{}, src[prefix:prefix+n]...)
						var buf *bytex.BufferX
						switch ctor {
						case "NewBufferX":
							buf = bytex.NewBufferX()
							buf.Write(src)
						case "NewSizedBufferX(exact)":
							buf = bytex.NewSizedBufferX(total)
							buf.Write(src)
						case "NewSizedBufferX(0)":
							buf = bytex.NewSizedBufferX(0)
							buf.Write(src)
						default:
							buf = bytex.NewReadableBufferX(src)
						}
						bad := ""
						if prefix > 0 {
							if _, e := buf.ReadU32(); e != nil {
								bad = "prefix read failed: " + e.Error()
							}
						}
						out, err := buf.ReadN(n)
						rd := bytex.NewReaderX(bytes.NewReader(append([]byte{}, src[prefix:]...)))
						outR, errR := rd.ReadN(n)
						if bad == "" && (err != nil || errR != nil || !bytes.Equal(out, want) || !bytes.Equal(outR, want)) {
							bad = fmt.Sprintf("ReadN(%d) of %d buffered bytes: buffer (%d bytes, %v) stream (%d bytes, %v)", n, n+k, len(out), err, len(outR), errR)
						}
						if bad == "" {
							switch after {
							case "reset+write":
								buf.Reset()
								buf.Write(pat(total, 101))
							case "drain+write":
								if k > 0 {
									_, _ = buf.ReadN(k)
								}
								_, _ = buf.ReadU8() // a read on the empty buffer
								buf.Write(pat(total, 101))
							case "grow":
								buf.Write(pat(2*total+64, 101))
							case "reset+grow":
								buf.Reset()
								buf.Write(pat(2*total+64, 101))
							case "overwrite-source":
								for i := range src {
									src[i] = 0xEE
								}
							case "cycles":
								for cy := 0; cy < 6; cy++ {
									if l := buf.Len(); l > 0 {
										_, _ = buf.ReadN(l)
									}
									buf.Write(pat(total, byte(50+cy)))
								}
							}
							if !bytes.Equal(out, want) {
								i := 0
								for i < n && out[i] == want[i] {
									i++
								}
								bad = fmt.Sprintf("the %d bytes returned by BufferX.ReadN (constructor %s, %d bytes consumed before, %d left unread) changed at offset %d (%#x -> %#x) after %q on the buffer; ReaderX.ReadN's result over the same bytes is unchanged=%v", n, ctor, prefix, k, i, want[i], out[i], after, bytes.Equal(outR, want))
							}
						}
						c.Case(fmt.Sprintf("owned/%s/%s/ok=%v", ctor, after, bad == ""), bad, "bytes returned by ReadN change when the buffer is used again", func() interface{} {
							return map[string]interface{}{"n": n, "left": k, "prefix": prefix, "ctor": ctor, "after": after}
						})
					}
				}
			}
		}
	}
}

// reuse: a buffer that carried one message is Reset and used for the next one, for message sizes
// around every power-of-two / allocation threshold up to 1 MiB and every constructor: after Reset the
// buffer is empty (Len, Bytes, reads fail) and the next message round-trips exactly.
func reuse(c *seq.Ctx) {
	sizes := []int{0, 1, 2, 63, 64, 65, 511, 512, 513, 1023, 1024, 1025, 4095, 4096, 4097, 32767, 32768, 65535, 65536, 65537, 131072, 1<<20 + 1}
	type mkT struct {
		name string
		mk   func() *bytex.BufferX
	}
	mks := []mkT{{"NewBufferX", bytex.NewBufferX}}
	for _, n := range sizes {
		n := n
		mks = append(mks, mkT{fmt.Sprintf("NewSizedBufferX(%d)", n), func() *bytex.BufferX { return bytex.NewSizedBufferX(n) }})
	}
	for _, mk := range mks {
		for _, fill := range sizes {
			for _, how := range []string{"one-write", "string", "bytes"} {
				if how == "bytes" && fill > 70000 {
					continue
				}
				for _, consumed := range []int{0, 1, fill} {
					if consumed > fill || (consumed == 1 && fill < 2) {
						continue
					}
					bad := func() (b string) {
						defer func() {
							if x := recover(); x != nil {
								b = fmt.Sprintf("panic: %v", x)
							}
						}()
						buf := mk.mk()
						for cycle := 0; cycle < 2; cycle++ {
							switch how {
							case "one-write":
								buf.Write(make([]byte, fill))
							case "string":
								if fill >= 4 {
									buf.WriteString(strings.Repeat("s", fill-4))
								} else {
									buf.Write(make([]byte, fill))
								}
							default:
								for i := 0; i < fill; i++ {
									buf.WriteU8(byte(i))
								}
							}
							if buf.Len() != fill {
								return fmt.Sprintf("cycle %d: Len() = %d after writing %d bytes", cycle, buf.Len(), fill)
							}
							if consumed > 0 {
								if _, err := buf.ReadN(consumed); err != nil {
									return fmt.Sprintf("cycle %d: ReadN(%d) of %d buffered bytes: %v", cycle, consumed, fill, err)
								}
							}
							buf.Reset()
							if buf.Len() != 0 || len(buf.Bytes()) != 0 {
								return fmt.Sprintf("cycle %d: after Reset of a buffer that held %d bytes Len() = %d, len(Bytes()) = %d", cycle, fill, buf.Len(), len(buf.Bytes()))
							}
							if _, err := buf.ReadU8(); err == nil {
								return fmt.Sprintf("cycle %d: ReadU8 succeeds on a buffer that was just Reset (it held %d bytes)", cycle, fill)
							}
							buf.WriteU32(0xA1B2C3D4)
							buf.WriteString("h\xc3\xa9llo")
							buf.WriteVarI64(-3)
							buf.ReWriteU32(0, 0x01020304)
							u, e1 := buf.ReadU32()
							st, e2 := buf.ReadString()
							v, e3 := buf.ReadVarI64()
							if e1 != nil || e2 != nil || e3 != nil || u != 0x01020304 || st != "h\xc3\xa9llo" || v != -3 || buf.Len() != 0 {
								return fmt.Sprintf("cycle %d: the message written after Reset (the buffer had held %d bytes) reads back as (%#x,%q,%d) errs (%v,%v,%v), %d bytes left", cycle, fill, u, st, v, e1, e2, e3, buf.Len())
							}
							buf.Reset()
						}
						return ""
					}()
					c.Case(fmt.Sprintf("reuse/%s/ok=%v", how, bad == ""), bad, "a Reset buffer is not empty / does not carry the next message", func() interface{} {
						return map[string]interface{}{"constructor": mk.name, "filled": fill, "how": how, "consumed": consumed}
					})
				}
			}
		}
	}
}

// readerKinds: the stream reader over every kind of io.Reader a caller is likely to hand it (library
// wrappers with their own buffering, short reads, data-with-error, limits, concatenation), for every
// stream-readable item and for string / raw fields on both sides of the wrappers' buffer sizes (16,
// 4096) and of 64 KiB, complete and cut short - it must agree with the buffer reader on the same bytes.
// sparseReader delivers one byte per call and answers (0, nil) - legal for an io.Reader, "nothing yet" -
// before every `every`-th byte; it always makes progress eventually.
type sparseReader struct {
	data  []byte
	every int
	pos   int
	gave  bool
}

func (s *sparseReader) Read(p []byte) (int, error) {
	if len(p) == 0 {
		return 0, nil
	}
	if s.pos >= len(s.data) {
		return 0, io.EOF
	}
	if s.pos%s.every == 0 && !s.gave {
		s.gave = true
		return 0, nil
	}
	s.gave = false
	p[0] = s.data[s.pos]
	s.pos++
	return 1, nil
}

func readerKinds(c *seq.Ctx, its []item) {
	type wrap struct {
		name string
		mk   func(in []byte) io.Reader
	}
	wraps := []wrap{
		{"bytes.Reader", func(in []byte) io.Reader { return bytes.NewReader(in) }},
		{"strings.Reader", func(in []byte) io.Reader { return strings.NewReader(string(in)) }},
		{"bufio(16)", func(in []byte) io.Reader { return bufio.NewReaderSize(bytes.NewReader(in), 16) }},
		{"bufio(default)", func(in []byte) io.Reader { return bufio.NewReader(bytes.NewReader(in)) }},
		{"bufio(16) over one-byte reads", func(in []byte) io.Reader { return bufio.NewReaderSize(iotest.OneByteReader(bytes.NewReader(in)), 16) }},
		{"iotest.OneByteReader", func(in []byte) io.Reader { return iotest.OneByteReader(bytes.NewReader(in)) }},
		{"iotest.HalfReader", func(in []byte) io.Reader { return iotest.HalfReader(bytes.NewReader(in)) }},
		{"iotest.DataErrReader", func(in []byte) io.Reader { return iotest.DataErrReader(bytes.NewReader(in)) }},
		{"io.LimitReader", func(in []byte) io.Reader {
			return io.LimitReader(bytes.NewReader(append(append([]byte(nil), in...), 0xEE, 0xEE)), int64(len(in)))
		}},
		{"io.MultiReader", func(in []byte) io.Reader {
			return io.MultiReader(bytes.NewReader(in[:len(in)/2]), bytes.NewReader(nil), bytes.NewReader(in[len(in)/2:]))
		}},
		{"empty read before every byte", func(in []byte) io.Reader { return &sparseReader{data: in, every: 1} }},
		{"empty read before every third byte", func(in []byte) io.Reader { return &sparseReader{data: in, every: 3} }},
		{"bufio.ReadWriter", func(in []byte) io.Reader {
			return bufio.NewReadWriter(bufio.NewReaderSize(bytes.NewReader(in), 32), bufio.NewWriter(io.Discard))
		}},
	}
	type prog struct {
		name  string
		enc   []byte
		readR func(r *bytex.ReaderX) (string, error)
		readB func(b *bytex.BufferX) (string, error)
	}
	var progs []prog
	for i := range its {
		if its[i].readR == nil || its[i].want == "" {
			continue
		}
		b := bytex.NewBufferX()
		its[i].write(b)
		progs = append(progs, prog{its[i].name, append([]byte(nil), b.Bytes()...), its[i].readR, its[i].readB})
	}
	hash := func(bs []byte) string { return fmt.Sprintf("len=%d sum=%x", len(bs), sha1.Sum(bs)) }
	for _, n := range []int{0, 1, 11, 12, 13, 15, 16, 17, 27, 28, 29, 31, 32, 33, 4091, 4092, 4093, 4095, 4096, 4097, 65535, 65536, 65537, 70000} {
		n := n
		payload := make([]byte, n)
		for i := range payload {
			payload[i] = byte('a' + i%26)
		}
		b := bytex.NewBufferX()
		b.WriteString(string(payload))
		progs = append(progs, prog{fmt.Sprintf("string(%d bytes)", n), append([]byte(nil), b.Bytes()...),
			func(r *bytex.ReaderX) (string, error) { v, e := r.ReadString(); return hash([]byte(v)), e },
			func(b *bytex.BufferX) (string, error) { v, e := b.ReadString(); return hash([]byte(v)), e }})
		progs = append(progs, prog{fmt.Sprintf("ReadN(%d)", n), payload,
			func(r *bytex.ReaderX) (string, error) { v, e := r.ReadN(n); return hash(v), e },
			func(b *bytex.BufferX) (string, error) { v, e := b.ReadN(n); return hash(v), e }})
		progs = append(progs, prog{fmt.Sprintf("ZReadN(%d)", n), payload,
			func(r *bytex.ReaderX) (string, error) { v, e := r.ZReadN(n); return hash(v), e },
			func(b *bytex.BufferX) (string, error) { v, e := b.ZReadN(n); return hash(v), e }})
	}
	for _, pr := range progs {
		cuts := map[int]bool{len(pr.enc): true, 0: true, 1: true, len(pr.enc) - 1: true, len(pr.enc) / 2: true, 4: true, 5: true}
		for cut := range cuts {
			if cut < 0 || cut > len(pr.enc) {
				continue
			}
			in := pr.enc[:cut]
			wantV, wantE, _ := guard(func() (string, error) { return pr.readB(bytex.NewReadableBufferX(append([]byte(nil), in...))) })
			for _, w := range wraps {
				rx := bytex.NewReaderX(w.mk(append([]byte(nil), in...)))
				v, e, pn := guard(func() (string, error) { return pr.readR(rx) })
				bad := ""
				if pn != "" || (e != nil) != (wantE != nil) || (e == nil && v != wantV) {
					bad = fmt.Sprintf("%s, %d of %d encoded bytes, source %s: ReaderX = %s err %v panic %q; BufferX on the same bytes = %s err %v", pr.name, cut, len(pr.enc), w.name, v, e, pn, wantV, wantE)
				}
				c.Case(fmt.Sprintf("readers/%s/complete=%v/ok=%v", w.name, cut == len(pr.enc), e == nil), bad, "ReaderX over "+w.name+" disagrees with BufferX", func() interface{} {
					return map[string]interface{}{"item": pr.name, "bytes": cut, "source": w.name}
				})
			}
		}
	}
}

func main() {
	r := ev.Start("C10")
	r.Rule("round trip: every sequence of typed writes (length <= L over ~95 boundary-valued items) read back through the writing buffer, a fresh readable buffer and the stream reader; hostile: every reader method on all byte strings up to a length over {00,01,7f,80,ff}, every truncation of every valid encoding, oversized varints/length prefixes, against reference decoders; fragmentation: every composition (chunking) of inputs up to a length with both legal end-of-stream styles, stream reader vs buffer reader; reader kinds: every stream-readable item and string/raw fields of 0..70000 bytes (both sides of 16, 4096 and 64 KiB), complete and cut short, through ReaderX over 13 kinds of source (incl. sources that answer (0,nil) between bytes) (bytes/strings readers, bufio with 16/32/default buffers, one-byte, half, data-with-error, limit, multi) against BufferX; reuse: every constructor x message sizes around every allocation threshold up to 1 MiB x three ways of filling x 0/1/all bytes consumed, Reset, emptiness, next message round trip, two cycles; owned results: BufferX.ReadN / ReaderX.ReadN results of 1..70000 bytes x 0/1/9 bytes left unread x consumed prefix x 4 constructors kept across reset+write, drain+write, growth, source overwrite and 6 refill cycles stay the bytes read; distinct = outcome classes (family, kind, ok/error)")
	r.Assume("reference decoders: little-endian fixed width, encoding/binary varints, u32 length prefix", "an io.Reader may return fewer bytes than asked and may return (n, io.EOF) with the last bytes")
	its := items()
	L := r.Pick(3, 4)
	fams := []seq.Family{
		{Name: "hostile", Run: func(c *seq.Ctx) { hostile(c, its, hostileInputs(its, r.Pick(5, 6))) }},
		{Name: "fragmentation", Run: func(c *seq.Ctx) { fragmentation(c, its, r.Pick(12, 14)) }},
		{Name: "rewrite", Run: func(c *seq.Ctx) { rewrite(c, its) }},
		{Name: "reset-and-reuse", Run: reuse},
		{Name: "owned-results", Run: ownedResults},
		{Name: "reader-kinds", Run: func(c *seq.Ctx) { readerKinds(c, its) }},
	}
	// round trips are sharded by first item
	for sh := 0; sh < 16; sh++ {
		sh := sh
		fams = append(fams, seq.Family{Name: fmt.Sprintf("roundtrip/shard%02d", sh), Run: func(c *seq.Ctx) {
			sq := make([]int, 0, L)
			var rec func()
			rec = func() {
				if c.Expired() {
					return
				}
				if len(sq) > 0 || sh == 0 {
					roundTrip(c, its, sq)
				}
				if len(sq) == L {
					return
				}
				for i := range its {
					if len(sq) == 0 && i%16 != sh {
						continue
					}
					sq = append(sq, i)
					rec()
					sq = sq[:len(sq)-1]
				}
			}
			rec()
		}})
	}
	var jobs []func()
	for _, f := range fams {
		f := f
		jobs = append(jobs, func() { seq.RunFamily(r, f) })
	}
	seq.Parallel(16, jobs)
	r.Extra("items", len(its))
	r.Finish()
}
