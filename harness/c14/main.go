// C14: actor lanes — accepted calls run once, serially, in order; results routed (engine S + routing family).
package main

import (
	"context"
	"errors"
	"fmt"
	"math"
	"strings"

	"github.com/pinealctx/neptune/syncx/pipe"
	"github.com/pinealctx/neptune/syncx/pipe/async"
	"github.com/pinealctx/neptune/syncx/pipe/line"
	"github.com/pinealctx/neptune/syncx/pipe/mline"
	"github.com/pinealctx/neptune/zverif/vsync"

	"verifh/ev"
	"verifh/mc"
	_ "verifh/quiet"
	"verifh/seq"
	"verifh/vctx"
)

// world: what the callee and the callers record.
type world struct {
	w          *mc.World
	started    map[int]int // id -> times started
	lane       map[int]int // id -> lane it ran on
	startSeq   []int       // ids in start order
	inLane     map[int]int // lane -> callees currently inside
	ended      map[int]bool
	stopCalled bool
	stopDone   bool
}

func (x *world) callee(id, lane int) (interface{}, error) {
	x.w.Touch()
	x.started[id]++
	if x.started[id] > 1 {
		x.w.Failf("call %d was executed %d times", id, x.started[id])
	}
	x.lane[id] = lane
	x.startSeq = append(x.startSeq, id)
	x.inLane[lane]++
	if x.inLane[lane] > 1 {
		x.w.Failf("lane %d runs %d calls at once (call %d started while another is inside)", lane, x.inLane[lane], id)
	}
	if x.stopDone {
		// only meaningful for calls that were issued after Stop returned; checked by the issuing thread
	}
	vsync.Yield()
	x.w.Touch()
	x.inLane[lane]--
	x.ended[id] = true
	return id * 10, nil
}

type procT struct {
	x  *world
	id int
}

func (p procT) Do(ctx context.Context) (interface{}, error) { return p.x.callee(p.id, 0) }

// executor adapter
type exec struct {
	name      string
	run, stop func()
	call      func(x *world, ctx context.Context, id, hash int) (interface{}, error)
	waitStop  func()
	ctxAware  bool // the lane skips a call whose context is already done
	drains    bool // calls accepted before Stop still complete
	indexOf   func(hash int) int
	lanes     int
	qsize     int
	isClosed  func(err error) bool
	isFull    func(err error) bool
}

type mkExec struct {
	name string
	mk   func() *exec
}

func pipeClosed(e error) bool  { return e == pipe.ErrQueueClosed }
func pipeFull(e error) bool    { return e == pipe.ErrQueueFull }
func asyncClosed(e error) bool { return e == async.ErrClosed }
func asyncFull(e error) bool   { return e == async.ErrFull }

func execs() []mkExec {
	var o []mkExec
	for _, qs := range []int{2, 8} {
		qs := qs
		o = append(o, mkExec{fmt.Sprintf("line/qsize=%d", qs), func() *exec {
			wg := &vsync.WaitGroup{}
			l := line.NewLine(wg, line.WithQSize(qs))
			return &exec{name: "line", qsize: qs, run: l.Run, stop: l.Stop, waitStop: wg.Wait, drains: true, lanes: 1, isClosed: pipeClosed, isFull: pipeFull, indexOf: func(int) int { return 0 },
				call: func(x *world, ctx context.Context, id, hash int) (interface{}, error) {
					return l.AsyncCall(ctx, line.NewCallCtx(func(c context.Context, req interface{}) (interface{}, error) { return x.callee(req.(int), 0) }, id))
				}}
		}})
	}
	for _, slots := range []int{1, 2, 3} {
		slots := slots
		o = append(o, mkExec{fmt.Sprintf("mline/slots=%d", slots), func() *exec {
			m := mline.NewMultiLine(pipe.WithSlotSize(slots), pipe.WithQSize(8))
			return &exec{name: "mline", qsize: 8, run: m.Run, stop: m.Stop, waitStop: func() {
				if err := m.WaitStop(vctx.New()); err != nil {
					panic(err)
				}
			}, drains: true, lanes: slots, isClosed: pipeClosed, isFull: pipeFull, indexOf: m.IndexOf,
				call: func(x *world, ctx context.Context, id, hash int) (interface{}, error) {
					return m.AsyncCall(ctx, mline.NewCallCtx(hash, func(c context.Context, lane int, req interface{}) (interface{}, error) {
						return x.callee(req.(int), lane)
					}, id))
				}}
		}})
	}
	for _, kind := range []string{"AsyncCall", "AsyncDelegate", "AsyncProc"} {
		kind := kind
		o = append(o, mkExec{"runner/" + kind, func() *exec {
			wg := &vsync.WaitGroup{}
			rq := async.NewRunnerQ(async.WithQSize(8), async.WithWaitGroup(wg))
			return &exec{name: "runner", qsize: 8, run: rq.Run, stop: rq.Stop, waitStop: func() { rq.WaitStop(); wg.Wait() }, drains: true, ctxAware: true, lanes: 1, isClosed: asyncClosed, isFull: asyncFull, indexOf: func(int) int { return 0 },
				call: func(x *world, ctx context.Context, id, hash int) (interface{}, error) {
					switch kind {
					case "AsyncCall":
						return rq.AsyncCall(func(c context.Context, arg interface{}) (interface{}, error) { return x.callee(arg.(int), 0) }, ctx, id)
					case "AsyncDelegate":
						return rq.AsyncDelegate(ctx, func(c context.Context) (interface{}, error) { return x.callee(id, 0) })
					}
					return rq.AsyncProc(ctx, procT{x, id})
				}}
		}})
	}
	for _, size := range []int{1, 4} {
		size := size
		o = append(o, mkExec{fmt.Sprintf("procchan/size=%d", size), func() *exec {
			wg := &vsync.WaitGroup{}
			pc := async.NewProcChan(async.WithQSize(size), async.WithWaitGroup(wg))
			return &exec{name: "procchan", qsize: size, run: pc.Run, stop: pc.Stop, waitStop: func() { pc.WaitStop(); wg.Wait() }, ctxAware: true, lanes: 1, isClosed: asyncClosed, isFull: asyncFull, indexOf: func(int) int { return 0 },
				call: func(x *world, ctx context.Context, id, hash int) (interface{}, error) {
					return pc.AsyncProc(ctx, procT{x, id})
				}}
		}})
	}
	return o
}

// caller issues one call and judges what it gets back.
func caller(x *world, e *exec, id, hash int, ctx *vctx.Ctx, afterStop bool, fullOK bool) {
	w := x.w
	w.Touch()
	stopWasDone := x.stopDone
	v, err := e.call(x, ctx, id, hash)
	w.Touch()
	switch {
	case err == nil:
		if v != id*10 {
			w.Failf("caller of call %d received %v — not the result of its own call (%d)", id, v, id*10)
		}
		if x.started[id] != 1 || !x.ended[id] {
			w.Failf("caller of call %d got a result but the call started %d times / ended=%v", id, x.started[id], x.ended[id])
		}
		if stopWasDone {
			w.Failf("call %d was issued after Stop had returned and was still accepted and executed", id)
		}
		w.Obs("c%d=ok", id)
	case err == context.Canceled:
		if !ctx.IsCanceled() {
			w.Failf("caller of call %d received a context error but its own context never ended", id)
		}
		w.Obs("c%d=ctx", id)
	case e.isClosed(err):
		if !x.stopCalled {
			w.Failf("call %d refused as closed although Stop was never called", id)
		}
		w.Obs("c%d=closed", id)
	case e.isFull(err):
		if !fullOK && e.qsize >= 4 {
			w.Failf("call %d refused as full although the queue cannot be full", id)
		}
		w.Obs("c%d=full", id)
	default:
		w.Failf("caller of call %d received unexpected error %v", id, err)
	}
	if stopWasDone && x.started[id] > 0 && e.name != "procchan-legacy" {
		w.Failf("call %d was issued after Stop had returned but its callee started", id)
	}
}

type prog struct {
	name string
	body func(x *world, e *exec, w *mc.World)
	pb   [2]int
	only func(e *exec) bool
}

func finish(x *world, e *exec, w *mc.World, refusedNeverStart []int) {
	w.Touch()
	if !x.stopCalled {
		x.stopCalled = true
		e.stop()
		w.Touch()
		x.stopDone = true
	}
	e.waitStop() // lane goroutines terminate (otherwise: deadlock)
	w.Touch()
	for _, id := range refusedNeverStart {
		if x.started[id] > 0 {
			w.Failf("call %d was refused but its callee ran", id)
		}
	}
	for l, n := range x.inLane {
		if n != 0 {
			w.Failf("lane %d still has %d callee(s) inside after the lanes terminated", l, n)
		}
	}
	w.Obs("order=%v", x.startSeq)
}

func progs() []prog {
	return []prog{
		{name: "two-callers", pb: [2]int{2, 3}, body: func(x *world, e *exec, w *mc.World) {
			e.run()
			w.Go("c1", func() { caller(x, e, 1, 5, vctx.New(), false, false) })
			w.Go("c2", func() { caller(x, e, 2, 5, vctx.New(), false, false) })
			w.Join()
			finish(x, e, w, nil)
			if e.qsize >= 4 && (x.started[1] != 1 || x.started[2] != 1) {
				w.Failf("both calls were accepted, started counts: %v", x.started)
			}
		}},
		{name: "three-callers-two-hashes", pb: [2]int{1, 2}, body: func(x *world, e *exec, w *mc.World) {
			e.run()
			w.Go("c1", func() { caller(x, e, 1, 4, vctx.New(), false, false) })
			w.Go("c2", func() { caller(x, e, 2, 4, vctx.New(), false, false) })
			w.Go("c3", func() { caller(x, e, 3, -3, vctx.New(), false, false) })
			w.Join()
			finish(x, e, w, nil)
			if x.lane[1] != x.lane[2] {
				w.Failf("calls 1 and 2 have equal hash but ran on lanes %d and %d", x.lane[1], x.lane[2])
			}
			for id, h := range map[int]int{1: 4, 2: 4, 3: -3} {
				if x.lane[id] != e.indexOf(h) || x.lane[id] < 0 || x.lane[id] >= e.lanes {
					w.Failf("call %d with hash %d ran on lane %d, IndexOf says %d (lanes %d)", id, h, x.lane[id], e.indexOf(h), e.lanes)
				}
			}
		}},
		// accepted order: one thread enqueues A, B, C with an already-ended context (the call returns at
		// once and stays queued); lanes that ignore the context must start them in that order, lanes that
		// honour it must skip them
		{name: "accept-order/pre-cancelled-ABC", pb: [2]int{2, 3}, only: func(e *exec) bool { return e.qsize >= 4 }, body: func(x *world, e *exec, w *mc.World) {
			for id := 1; id <= 3; id++ {
				_, err := e.call(x, vctx.Canceled(), id, 7)
				if err != context.Canceled && err != nil {
					// the result may already be there only if the lane ran, which it cannot: not started yet
					w.Failf("call %d with an ended context returned %v", id, err)
				}
			}
			e.run()
			w.Go("late", func() { caller(x, e, 4, 7, vctx.New(), false, false) })
			w.Join()
			finish(x, e, w, nil)
			if e.ctxAware {
				for id := 1; id <= 3; id++ {
					if x.started[id] != 0 {
						w.Failf("call %d had an ended context before it was queued but the lane still ran it", id)
					}
				}
			} else if fmt.Sprint(x.startSeq) != "[1 2 3 4]" {
				w.Failf("calls were accepted in the order 1,2,3,4 on one lane but started in the order %v", x.startSeq)
			}
		}},
		{name: "cancel-any-time", pb: [2]int{2, 3}, body: func(x *world, e *exec, w *mc.World) {
			e.run()
			c1 := vctx.New()
			w.Go("c1", func() { caller(x, e, 1, 2, c1, false, false) })
			w.Go("c2", func() { caller(x, e, 2, 2, vctx.New(), false, false) })
			w.Go("cancel", func() { c1.Cancel() })
			w.Join()
			finish(x, e, w, nil)
			if e.qsize >= 4 && x.started[2] != 1 {
				w.Failf("call 2 was never cancelled and never refused but started %d times", x.started[2])
			}
		}},
		{name: "stop-vs-callers", pb: [2]int{2, 3}, body: func(x *world, e *exec, w *mc.World) {
			e.run()
			w.Go("c1", func() { caller(x, e, 1, 2, vctx.New(), false, false) })
			w.Go("c2", func() { caller(x, e, 2, 2, vctx.New(), false, false) })
			w.Go("stopper", func() {
				w.Touch()
				x.stopCalled = true
				e.stop()
				w.Touch()
				x.stopDone = true
			})
			w.Join()
			finish(x, e, w, nil)
		}},
		{name: "stop-with-backlog", pb: [2]int{2, 3}, only: func(e *exec) bool { return e.drains }, body: func(x *world, e *exec, w *mc.World) {
			// two calls are queued before the lane even starts; Stop races the lane start: both must still complete
			w.Go("c1", func() { caller(x, e, 1, 2, vctx.New(), false, false) })
			w.Go("c2", func() { caller(x, e, 2, 2, vctx.New(), false, false) })
			w.Go("runner", func() { e.run() })
			w.Go("stopper", func() {
				// Stop only after both were accepted (they are parked waiting for their result)
				vsync.BlockOn(func() bool { return x.started[1]+x.started[2] > 0 })
				w.Touch()
				x.stopCalled = true
				e.stop()
				w.Touch()
				x.stopDone = true
			})
			w.Join()
			finish(x, e, w, nil)
		}},
		{name: "stop-before-run/accepted-call-pending", pb: [2]int{2, 3}, only: func(e *exec) bool { return e.drains }, body: func(x *world, e *exec, w *mc.World) {
			// a call is accepted while the lane has not been started yet; Stop comes first, Run afterwards:
			// the accepted call must still complete
			c1 := w.Go("c1", func() { caller(x, e, 1, 2, vctx.New(), false, false) })
			w.Go("stop-then-run", func() {
				vsync.BlockOn(func() bool { return c1.ParkedAt(vsync.OpSelect) }) // c1 is queued and waits for its result
				w.Touch()
				x.stopCalled = true
				e.stop()
				e.run()
			})
			w.Join()
			w.Touch()
			x.stopDone = true
			finish(x, e, w, nil)
			if x.started[1] != 1 {
				w.Failf("call 1 was accepted before Stop but was executed %d times", x.started[1])
			}
		}},
		{name: "call-after-stop", pb: [2]int{2, 3}, body: func(x *world, e *exec, w *mc.World) {
			e.run()
			w.Go("c1", func() { caller(x, e, 1, 2, vctx.New(), false, false) })
			w.Go("stop-then-call", func() {
				w.Touch()
				x.stopCalled = true
				e.stop()
				w.Touch()
				x.stopDone = true
				caller(x, e, 2, 2, vctx.New(), true, false)
			})
			w.Join()
			finish(x, e, w, []int{})
			if x.started[2] != 0 {
				w.Failf("call 2 was issued after Stop had returned but its callee ran")
			}
		}},
		{name: "double-run-double-stop", pb: [2]int{2, 3}, only: func(e *exec) bool { return e.name != "mline" }, body: func(x *world, e *exec, w *mc.World) {
			w.Go("r1", func() { e.run() })
			w.Go("r2", func() { e.run() })
			w.Go("c1", func() { caller(x, e, 1, 2, vctx.New(), false, false) })
			w.Join()
			w.Go("s1", func() { w.Touch(); x.stopCalled = true; e.stop() })
			w.Go("s2", func() { w.Touch(); x.stopCalled = true; e.stop() })
			w.Join()
			w.Touch()
			x.stopDone = true
			finish(x, e, w, nil)
		}},
	}
}

func scenarios() []*mc.Scenario {
	var scs []*mc.Scenario
	for _, me := range execs() {
		probe := me.mk()
		for _, p := range progs() {
			if p.only != nil && !p.only(probe) {
				continue
			}
			me, p := me, p
			pb := p.pb
			fb := [2]int{0, 0}
			if probe.lanes >= 2 {
				// several lane goroutines plus the exit signaller: bound the free choices as well
				pb = [2]int{1, 2}
				fb = [2]int{4, 6}
				if probe.lanes >= 3 {
					fb = [2]int{4, 5} // three lanes: the thorough tier did not complete 2 preemptions with 6 free choices in 25 min
				}
			}
			scs = append(scs, &mc.Scenario{Name: me.name + "/" + p.name, PB: pb, FB: fb, Main: func(w *mc.World) {
				x := &world{w: w, started: map[int]int{}, lane: map[int]int{}, inLane: map[int]int{}, ended: map[int]bool{}}
				p.body(x, me.mk(), w)
			}})
		}
	}
	return scs
}

func routing(c *seq.Ctx) {
	vals := []int{math.MinInt, math.MinInt + 1, math.MaxInt, math.MaxInt - 1, math.MinInt32, math.MaxInt32, -1 << 31, 1 << 31, -1 << 32, 1 << 32, -(1 << 62), 1 << 62}
	for i := -300; i <= 300; i++ {
		vals = append(vals, i)
	}
	ns := []int{509}
	for n := 1; n <= 64; n++ {
		ns = append(ns, n)
	}
	for _, n := range ns {
		m := mline.NewMultiLine(pipe.WithSlotSize(n), pipe.WithQSize(1))
		for _, v := range vals {
			a, b, d := pipe.NormalizeSlotIndex(v, n), pipe.NormalizeSlotIndex(v, n), m.IndexOf(v)
			bad, sig := "", ""
			switch {
			case a < 0 || a >= n:
				bad, sig = fmt.Sprintf("NormalizeSlotIndex(%d, %d) = %d, outside [0,%d)", v, n, a, n), "lane index out of range"
			case a != b || a != d:
				bad, sig = fmt.Sprintf("NormalizeSlotIndex(%d, %d) = %d, %d; IndexOf = %d", v, n, a, b, d), "lane index not deterministic / IndexOf disagrees"
			}
			cls := "pos"
			if v < 0 {
				cls = "neg"
			}
			c.Case("lane-index/"+cls, bad, sig, func() interface{} { return fmt.Sprintf("NormalizeSlotIndex(%d,%d)", v, n) })
		}
	}
}

// minint: a call with the minimum integer as hash must run (on a lane in range), not crash the caller
func minIntScenario() *mc.Scenario {
	return &mc.Scenario{Name: "mline/slots=3/hash=MinInt", PB: [2]int{1, 2}, FB: [2]int{4, 6}, Main: func(w *mc.World) {
		x := &world{w: w, started: map[int]int{}, lane: map[int]int{}, inLane: map[int]int{}, ended: map[int]bool{}}
		e := execs()[4].mk()
		if !strings.HasPrefix(execs()[4].name, "mline/slots=3") {
			panic("scenario table changed")
		}
		e.run()
		w.Go("c1", func() { caller(x, e, 1, math.MinInt, vctx.New(), false, false) })
		w.Go("c2", func() { caller(x, e, 2, -7, vctx.New(), false, false) })
		w.Join()
		finish(x, e, w, nil)
		if x.lane[1] < 0 || x.lane[1] >= 3 || x.started[1] != 1 {
			w.Failf("call with hash MinInt: started %d times on lane %d", x.started[1], x.lane[1])
		}
	}}
}

// reuse: the same CallCtx object is submitted to two MultiLines with different lane counts, then fresh
// CallCtx objects with the same hash: every call must run on IndexOf(hash) of the executor it was given to.
func reuseScenario(hash int) *mc.Scenario {
	return &mc.Scenario{Name: fmt.Sprintf("mline/reused-CallCtx-on-2-and-3-lanes/hash=%d", hash), PB: [2]int{1, 1}, FB: [2]int{4, 6}, Main: func(w *mc.World) {
		m2 := mline.NewMultiLine(pipe.WithSlotSize(2), pipe.WithQSize(8))
		m3 := mline.NewMultiLine(pipe.WithSlotSize(3), pipe.WithQSize(8))
		m2.Run()
		m3.Run()
		type rec struct{ on, lane int }
		var ran []rec
		cur := 0
		cc := mline.NewCallCtx(hash, func(c context.Context, lane int, req interface{}) (interface{}, error) {
			w.Touch()
			ran = append(ran, rec{cur, lane})
			return lane, nil
		}, nil)
		submit := func(on int, m *mline.MultiLine, c *mline.CallCtx) {
			w.Touch()
			cur = on
			if _, err := m.AsyncCall(vctx.New(), c); err != nil {
				w.Failf("call refused: %v", err)
			}
		}
		submit(2, m2, cc)
		submit(3, m3, cc)
		submit(2, m2, cc)
		fresh := mline.NewCallCtx(hash, func(c context.Context, lane int, req interface{}) (interface{}, error) {
			w.Touch()
			ran = append(ran, rec{cur, lane})
			return lane, nil
		}, nil)
		submit(3, m3, fresh)
		m2.Stop()
		m3.Stop()
		_ = m2.WaitStop(vctx.New())
		_ = m3.WaitStop(vctx.New())
		w.Touch()
		for _, r := range ran {
			want := m2.IndexOf(hash)
			if r.on == 3 {
				want = m3.IndexOf(hash)
			}
			if r.lane != want {
				w.Failf("a call with hash %d submitted to the %d-lane executor ran on lane %d, IndexOf says %d (ran: %v)", hash, r.on, r.lane, want, ran)
			}
		}
		if len(ran) != 4 {
			w.Failf("4 calls submitted, %d ran", len(ran))
		}
	}}
}

// warm: populate the runner's process-wide reflection cache so that every execution takes the same path
func warm() *mc.Scenario {
	return &mc.Scenario{Name: "warmup", Main: func(w *mc.World) {
		x := &world{w: w, started: map[int]int{}, lane: map[int]int{}, inLane: map[int]int{}, ended: map[int]bool{}}
		for _, me := range execs() {
			if strings.HasPrefix(me.name, "runner/AsyncCall") {
				e := me.mk()
				e.run()
				_, _ = e.call(x, vctx.New(), 1, 0)
				e.stop()
				e.waitStop()
			}
		}
	}}
}

// crossScenario: two executors; a callee running on lane k of A hands ITS context on to B.AsyncCall with a
// hash that B also maps to lane k, while another caller uses B's lane k directly.  B's lane must still
// run its calls one at a time, on its own goroutine, and refuse after B.Stop.
func crossScenario() *mc.Scenario {
	return &mc.Scenario{Name: "mline/nested-call-into-a-second-executor-with-the-callee-context", PB: [2]int{1, 2}, FB: [2]int{4, 6}, Main: func(w *mc.World) {
		a := mline.NewMultiLine(pipe.WithSlotSize(2), pipe.WithQSize(8))
		b := mline.NewMultiLine(pipe.WithSlotSize(2), pipe.WithQSize(8))
		a.Run()
		b.Run()
		inB := 0
		threads := map[int]bool{}
		onB := func(tag string) func(c context.Context, lane int, req interface{}) (interface{}, error) {
			return func(c context.Context, lane int, req interface{}) (interface{}, error) {
				w.Touch()
				inB++
				threads[w.S.Cur().ID] = true
				if inB > 1 {
					w.Failf("two callees run inside lane %d of the second executor at once (%s entered while another is inside)", lane, tag)
				}
				vsync.Yield()
				w.Touch()
				inB--
				return tag, nil
			}
		}
		w.Go("direct", func() {
			if _, err := b.AsyncCall(vctx.New(), mline.NewCallCtx(1, onB("direct"), nil)); err != nil {
				w.Failf("direct call refused: %v", err)
			}
		})
		w.Go("nested", func() {
			res, err := a.AsyncCall(vctx.New(), mline.NewCallCtx(1, func(c context.Context, lane int, req interface{}) (interface{}, error) {
				return b.AsyncCall(c, mline.NewCallCtx(1, onB("nested"), nil)) // the callee's own context travels on
			}, nil))
			if err != nil || res != "nested" {
				w.Failf("nested call returned %v, %v", res, err)
			}
		})
		w.Join()
		w.Touch()
		if len(threads) != 1 {
			w.Failf("calls given to lane 1 of the second executor ran on %d different goroutines (a lane is one goroutine)", len(threads))
		}
		a.Stop()
		b.Stop()
		_ = a.WaitStop(vctx.New())
		_ = b.WaitStop(vctx.New())
	}}
}

// calleeShapes: the reflective AsyncCall accepts any func(ctx, A) (R, E) whose E implements error; for
// every shape - interface and concrete (pointer, nil-able) error types, value and pointer arguments and
// results - a successful call must hand the caller its value and a nil error, a failing one its error.
type opError struct{ code int }

func (e *opError) Error() string { return fmt.Sprint("op error ", e.code) }

type sliceErr []string

func (e sliceErr) Error() string { return fmt.Sprint([]string(e)) }

func calleeShapesScenario() *mc.Scenario {
	return &mc.Scenario{Name: "runner/AsyncCall/callee-shapes", PB: [2]int{0, 0}, FB: [2]int{-1, -1}, ProcessState: true, NoStateCache: true, Main: func(w *mc.World) {
		wg := &vsync.WaitGroup{}
		rq := async.NewRunnerQ(async.WithQSize(8), async.WithWaitGroup(wg))
		rq.Run()
		type tc struct {
			name    string
			fn      interface{}
			arg     interface{}
			want    string
			wantErr bool
		}
		seven := 7
		cases := []tc{
			{"(int, error) ok", func(c context.Context, a int) (int, error) { return a + 1, nil }, 1, "2", false},
			{"(int, error) fails", func(c context.Context, a int) (int, error) { return 0, errors.New("boom") }, 1, "0", true},
			{"(int, *opError) ok with a nil *opError", func(c context.Context, a int) (int, *opError) { return a + 1, nil }, 1, "2", false},
			{"(int, *opError) fails", func(c context.Context, a int) (int, *opError) { return 0, &opError{3} }, 1, "0", true},
			{"(string, sliceErr) ok with a nil slice error", func(c context.Context, a string) (string, sliceErr) { return a + "!", nil }, "x", "x!", false},
			{"(string, sliceErr) fails", func(c context.Context, a string) (string, sliceErr) { return "", sliceErr{"bad"} }, "x", "", true},
			{"(*int, error) ok with a pointer argument and result", func(c context.Context, a *int) (*int, error) { return a, nil }, &seven, "ptr", false},
			{"(interface{}, error) ok with a nil result", func(c context.Context, a int) (interface{}, error) { return nil, nil }, 1, "<nil>", false},
		}
		for _, t := range cases {
			res, err := rq.AsyncCall(t.fn, vctx.New(), t.arg)
			got := fmt.Sprint(res)
			if p, ok := res.(*int); ok && p == &seven {
				got = "ptr"
			}
			if (err != nil) != t.wantErr {
				w.Failf("AsyncCall of a callee shaped %s: the caller received err=%v (%T), want failure=%v", t.name, err, err, t.wantErr)
			}
			if !t.wantErr && got != t.want {
				w.Failf("AsyncCall of a callee shaped %s: the caller received %s, want %s", t.name, got, t.want)
			}
		}
		rq.Stop()
		rq.WaitStop()
		wg.Wait()
	}}
}

// optionsFamily: options given to one executor do not reach the next one (all ordered pairs of option
// sets through pipe.GetOption, and a default MultiLine built after configured ones)
func optionsFamily(c *seq.Ctx) {
	type set struct {
		name    string
		opts    []pipe.Option
		slot, q int
	}
	sets := []set{
		{"none", nil, pipe.DefaultSlotSize, pipe.DefaultQSize},
		{"slot=2", []pipe.Option{pipe.WithSlotSize(2)}, 2, pipe.DefaultQSize},
		{"q=3", []pipe.Option{pipe.WithQSize(3)}, pipe.DefaultSlotSize, 3},
		{"slot=5,q=7", []pipe.Option{pipe.WithSlotSize(5), pipe.WithQSize(7)}, 5, 7},
	}
	for _, a := range sets {
		for _, b := range sets {
			for _, d := range sets {
				bad := ""
				for _, x := range []set{a, b, d} {
					if sl, q := pipe.GetOption(x.opts...); sl != x.slot || q != x.q {
						bad = fmt.Sprintf("GetOption(%s) after the earlier calls = (%d,%d), want (%d,%d)", x.name, sl, q, x.slot, x.q)
						break
					}
				}
				c.Case("options/"+fmt.Sprint(bad == ""), bad, "options leak from one executor's construction into another's", func() interface{} { return []string{a.name, b.name, d.name} })
			}
		}
	}
	_ = mline.NewMultiLine(pipe.WithSlotSize(2), pipe.WithQSize(1))
	m := mline.NewMultiLine(pipe.WithQSize(1))
	bad := ""
	for _, h := range []int{1, 2, 3, 508, 509, 510, 1019} {
		if got, want := m.IndexOf(h), pipe.NormalizeSlotIndex(h, pipe.DefaultSlotSize); got != want {
			bad = fmt.Sprintf("a MultiLine built without a slot size (after one built with 2 lanes) routes hash %d to lane %d, want %d of the default %d lanes", h, got, want, pipe.DefaultSlotSize)
		}
	}
	c.Case("options/default-after-configured", bad, "options leak from one executor's construction into another's", nil)
}

func main() {
	r := ev.Start("C14")
	r.Rule("every interleaving (at each mutex/cond/once/waitgroup/channel/select point, every select resolution, up to the stated preemption bound) of callers, context cancellers, Run and Stop on the real line.Line, mline.MultiLine (1..3 slots), async.RunnerQ (AsyncCall via reflection, AsyncDelegate, AsyncProc) and async.ProcChan (size 1,2), the callee recording start/end per lane; oracles: each call starts at most once, no two callees inside one lane, accepted order = start order, own result or own context error, equal hash = same lane = IndexOf in [0,lanes), refusal only after Stop, no callee for a call issued after Stop returned, accepted calls complete (deadlock otherwise), lanes terminate; plus NormalizeSlotIndex/IndexOf over [-300,300], extreme integers and 1..64, 509 lanes")
	r.Assume("vsync model of Mutex/Cond/Once/WaitGroup/buffered channels/select", "contexts are harness contexts whose cancellation is a scheduled event")
	mc.Warm(warm())
	if r.Shard == "" && r.ReplayPath == "" {
		seq.RunFamily(r, seq.Family{Name: "lane-index", Run: routing})
		seq.RunFamily(r, seq.Family{Name: "executor-options", Run: optionsFamily})
	}
	scs := append(scenarios(), minIntScenario(), reuseScenario(2), reuseScenario(5), reuseScenario(-4), calleeShapesScenario(), crossScenario())
	mc.Main(r, scs)
}
