// C02: keylock — per-key RW mutual exclusion, key independence, ordered multi-lock, reclaim (engine S).
package main

import (
	"fmt"
	"strings"

	"github.com/pinealctx/neptune/remap"
	"github.com/pinealctx/neptune/syncx/keylock"
	"github.com/pinealctx/neptune/zverif/vsync"

	"verifh/ev"
	"verifh/mc"
)

type lk struct {
	lock, unlock, rlock, runlock     func(k int)
	locks, unlocks, rlocks, runlocks func(ks []int)
	entries                          func() int
}

type mkLocker struct {
	name  string
	multi bool
	mk    func() *lk
}

func fromLocker(l keylock.Locker) *lk {
	return &lk{lock: func(k int) { l.Lock(k) }, unlock: func(k int) { l.Unlock(k) }, rlock: func(k int) { l.RLock(k) }, runlock: func(k int) { l.RUnlock(k) },
		entries: func() int { return keylock.VerifEntries(l) }}
}

func fromT(l keylock.TLocker[int]) *lk {
	return &lk{lock: l.Lock, unlock: l.Unlock, rlock: l.RLock, runlock: l.RUnlock, locks: l.Locks, unlocks: l.Unlocks, rlocks: l.RLocks, runlocks: l.RUnlocks,
		entries: func() int { return keylock.VerifTEntries(l) }}
}

func lockers() []mkLocker {
	var o []mkLocker
	o = append(o, mkLocker{"KeyLocker", false, func() *lk { return fromLocker(keylock.NewKeyLocker()) }})
	o = append(o, mkLocker{"TKeyLocker", true, func() *lk { return fromT(keylock.NewTKeyLocker[int]()) }})
	for _, p := range []uint64{1, 2, 3} {
		p := p
		o = append(o, mkLocker{fmt.Sprintf("KeyLockerGrp/shards=%d", p), false, func() *lk { return fromLocker(keylock.NewKeyLockeGrp(remap.WithPrime(p))) }})
		o = append(o, mkLocker{fmt.Sprintf("XHashKeyLockerGrp/shards=%d", p), false, func() *lk { return fromLocker(keylock.NewXHashKeyLockeGrp(remap.WithPrime(p))) }})
		o = append(o, mkLocker{fmt.Sprintf("TKeyLockerGrp/shards=%d", p), true, func() *lk { return fromT(keylock.NewTKeyLockeGrp[int](remap.WithPrime(p))) }})
		o = append(o, mkLocker{fmt.Sprintf("TXHashKeyLockerGrp/shards=%d", p), true, func() *lk { return fromT(keylock.NewTXHashTKeyLockeGrp[int](remap.WithPrime(p))) }})
	}
	return o
}

// step: one critical section of a thread
type step struct {
	write  bool
	keys   []int // one key: Lock/RLock; several: Locks/RLocks
	holdOn string
	signal string
	buf    *[]int // the caller's own key buffer, refilled in place for every call that shares it
}

type world struct {
	l       *lk
	readers map[int]int
	writers map[int]int
	active  int
	events  map[string]bool
	w       *mc.World
}

func (x *world) run(name string, s step) {
	w := x.w
	w.Touch()
	x.active++
	if s.buf != nil { // the thread reuses one slice for its multi-key calls
		copy(*s.buf, s.keys)
		s.keys = (*s.buf)[:len(s.keys)]
	}
	multi := len(s.keys) > 1
	switch {
	case multi && s.write:
		x.l.locks(s.keys)
	case multi:
		x.l.rlocks(s.keys)
	case s.write:
		x.l.lock(s.keys[0])
	default:
		x.l.rlock(s.keys[0])
	}
	w.Touch()
	for _, k := range s.keys {
		if s.write {
			x.writers[k]++
		} else {
			x.readers[k]++
		}
		if x.writers[k] > 1 || (x.writers[k] == 1 && x.readers[k] > 0) {
			w.Failf("key %d is held by %d writer(s) and %d reader(s) at once when %s entered", k, x.writers[k], x.readers[k], name)
		}
	}
	w.Obs("%s:in", name)
	if s.signal != "" {
		x.events[s.signal] = true
	}
	if s.holdOn != "" {
		vsync.BlockOn(func() bool { return x.events[s.holdOn] })
	} else {
		vsync.Yield()
	}
	w.Touch()
	for _, k := range s.keys {
		if s.write {
			x.writers[k]--
		} else {
			x.readers[k]--
		}
	}
	switch {
	case multi && s.write:
		x.l.unlocks(s.keys)
	case multi:
		x.l.runlocks(s.keys)
	case s.write:
		x.l.unlock(s.keys[0])
	default:
		x.l.runlock(s.keys[0])
	}
	w.Touch()
	x.active--
}

type prog struct {
	name    string
	threads [][]step
	multi   bool
	pb      [2]int
}

func scenario(m mkLocker, p prog) *mc.Scenario {
	return &mc.Scenario{
		Name: m.name + "/" + p.name,
		PB:   p.pb,
		Main: func(w *mc.World) {
			x := &world{l: m.mk(), readers: map[int]int{}, writers: map[int]int{}, events: map[string]bool{}, w: w}
			w.Data["x"] = x
			for ti, steps := range p.threads {
				ti, steps := ti, steps
				w.Go(fmt.Sprintf("T%d", ti), func() {
					for si, s := range steps {
						x.run(fmt.Sprintf("T%d.%d%s%v", ti, si, map[bool]string{true: "W", false: "R"}[s.write], s.keys), s)
					}
				})
			}
			w.Join()
			w.Touch()
			if n := x.l.entries(); n != 0 {
				w.Failf("every lock was released but the locker retains %d per-key entr(ies)", n)
			}
		},
		Invariant: func(w *mc.World) error {
			xi, ok := w.Data["x"]
			if !ok {
				return nil
			}
			x := xi.(*world)
			if x.active == 0 {
				if n := x.l.entries(); n != 0 {
					return fmt.Errorf("no caller holds or waits for any key but the locker retains %d per-key entr(ies)", n)
				}
			}
			return nil
		},
	}
}

func progs() []prog {
	W := func(ks ...int) step { return step{write: true, keys: ks} }
	R := func(ks ...int) step { return step{keys: ks} }
	a, b, c := 1, 2, 3 // with 2 shards: shard(1)=1 shard(2)=0 shard(3)=1, so shard order differs from list order
	return []prog{
		{name: "excl/W|W|R", threads: [][]step{{W(a)}, {W(a)}, {R(a)}}, pb: [2]int{4, 6}},
		{name: "excl/R|R|W", threads: [][]step{{R(a)}, {R(a)}, {W(a)}}, pb: [2]int{4, 6}},
		{name: "excl/RW|WR", threads: [][]step{{R(a), W(a)}, {W(a), R(a)}}, pb: [2]int{4, 6}},
		{name: "excl/R|R|W|R", threads: [][]step{{R(a)}, {R(a)}, {W(a)}, {R(a)}}, pb: [2]int{2, 3}},
		{name: "independence/W(a)-held-until-W(b)-done", threads: [][]step{{{write: true, keys: []int{a}, holdOn: "b-in"}}, {{write: true, keys: []int{b}, signal: "b-in"}}}, pb: [2]int{4, 6}},
		{name: "independence/W(a)-held-until-W(c)-done", threads: [][]step{{{write: true, keys: []int{a}, holdOn: "c-in"}}, {{write: true, keys: []int{c}, signal: "c-in"}}}, pb: [2]int{4, 6}},
		{name: "independence/R(a)-held-until-R(b)W(b)-done", threads: [][]step{{{keys: []int{a}, holdOn: "b-in"}}, {R(b), {write: true, keys: []int{b}, signal: "b-in"}}}, pb: [2]int{4, 6}},
		{name: "mixed-keys/W(a)R(b)|W(b)R(a)|R(a)", threads: [][]step{{W(a), R(b)}, {W(b), R(a)}, {R(a)}}, pb: [2]int{2, 4}},
		{name: "multi/Locks[a,b]|Locks[a,b]|Lock(b)", multi: true, threads: [][]step{{W(a, b)}, {W(a, b)}, {W(b)}}, pb: [2]int{4, 6}},
		{name: "multi/RLocks[a,b]|Locks[b,c]|RLock(a)", multi: true, threads: [][]step{{R(a, b)}, {W(b, c)}, {R(a)}}, pb: [2]int{4, 6}},
		{name: "multi/Locks[a,b,c]|Locks[b,c]|RLocks[a,c]", multi: true, threads: [][]step{{W(a, b, c)}, {W(b, c)}, {R(a, c)}}, pb: [2]int{2, 4}},
		{name: "multi/Locks[a,b]|RLocks[a,b]|Locks[a,b]", multi: true, threads: [][]step{{W(a, b)}, {R(a, b)}, {W(a, b)}}, pb: [2]int{2, 4}},
		{name: "multi/Locks[a,c]|Locks[b,c]|Lock(a)Lock(c)", multi: true, threads: [][]step{{W(a, c)}, {W(b, c)}, {W(a), W(c)}}, pb: [2]int{2, 4}},
		// long lists (13 and 21 keys, several per shard): library sorts change algorithm above 12 elements
		{name: "multi/Locks[1..13]|Locks[1,4]", multi: true, threads: [][]step{{W(1, 2, 3, 4, 5, 6, 7, 8, 9, 10, 11, 12, 13)}, {W(1, 4)}}, pb: [2]int{1, 2}},
		{name: "multi/Locks[1..21]|Locks[2,8,20]|RLocks[5,11]", multi: true, threads: [][]step{{W(1, 2, 3, 4, 5, 6, 7, 8, 9, 10, 11, 12, 13, 14, 15, 16, 17, 18, 19, 20, 21)}, {W(2, 8, 20)}, {R(5, 11)}}, pb: [2]int{1, 1}},
		// one caller-owned buffer refilled in place between two multi-key calls of the same length (8 and 13 keys)
		{name: "multi/Locks[buf=1..8];Locks[buf=11..18]|Lock(11)|Lock(3)", multi: true, threads: [][]step{{withBuf(W(seqKeys(8)...), bufA), withBuf(W(shift(seqKeys(8), 10)...), bufA)}, {W(11)}, {W(3)}}, pb: [2]int{1, 2}},
		{name: "multi/RLocks[buf=1..13];Locks[buf=21..33]|Lock(25)", multi: true, threads: [][]step{{withBuf(R(seqKeys(13)...), bufB), withBuf(W(shift(seqKeys(13), 20)...), bufB)}, {W(25)}}, pb: [2]int{1, 2}},
		// batches of 64 / 65 keys (every key the table tracks) released while another caller waits on one of them
		{name: "multi/Locks[1..64]|Lock(5)|Lock(5)", multi: true, threads: [][]step{{W(seqKeys(64)...)}, {W(5)}, {W(5)}}, pb: [2]int{1, 1}},
		{name: "multi/Locks[1..65]|RLock(7)|Lock(7)", multi: true, threads: [][]step{{W(seqKeys(65)...)}, {R(7)}, {W(7)}}, pb: [2]int{1, 1}},
		{name: "multi/RLocks[1..64]|Lock(9)|RLock(9)", multi: true, threads: [][]step{{R(seqKeys(64)...)}, {W(9)}, {R(9)}}, pb: [2]int{1, 1}},
		{name: "multi/RLocks[1..13]|Locks[3,9]|Locks[1..13]", multi: true, threads: [][]step{{R(1, 2, 3, 4, 5, 6, 7, 8, 9, 10, 11, 12, 13)}, {W(3, 9)}, {W(1, 2, 3, 4, 5, 6, 7, 8, 9, 10, 11, 12, 13)}}, pb: [2]int{1, 1}},
	}
}

// manyHolders: n read locks on one key are held at once (counter widths: 2^8+1, 2^16+1 holders); one is
// released, then a writer arrives: it must not get in before the other n-1 readers have left, and the
// locker must keep its entry meanwhile.
func manyHolders(m mkLocker, n int, pb [2]int) *mc.Scenario {
	return &mc.Scenario{Name: fmt.Sprintf("%s/many-readers/n=%d", m.name, n), PB: pb, Horizon: 8*n + 1000, NoStateCache: true,
		Main: func(w *mc.World) {
			x := &world{l: m.mk(), readers: map[int]int{}, writers: map[int]int{}, events: map[string]bool{}, w: w}
			const k = 5
			x.active++
			for i := 0; i < n; i++ {
				x.l.rlock(k)
				x.readers[k]++
			}
			x.readers[k]--
			x.l.runlock(k)
			if e := x.l.entries(); e != 1 {
				w.Failf("%d readers still hold key %d but the locker retains %d entries for it", n-1, k, e)
			}
			w.Go("writer", func() { x.run("W[5]", step{write: true, keys: []int{k}}) })
			vsync.Yield()
			w.Touch()
			for i := 0; i < n-1; i++ {
				x.readers[k]--
				x.l.runlock(k)
			}
			x.active--
			w.Join()
			w.Touch()
			if e := x.l.entries(); e != 0 {
				w.Failf("every lock was released but the locker retains %d per-key entr(ies)", e)
			}
		}}
}

// multiKeyOrder: the global order that keeps multi-key calls deadlock-free, checked where it is made.
// For 2,3,5,7,11,13 shards x modulo/xxhash routing, every subset of 1..6 keys out of 14 (ascending,
// descending and rotated), each computed 6 times (the grouping goes through a Go map, whose iteration
// order varies from call to call): the shards are visited in strictly ascending index order, every key is
// handed to the shard it routes to, and every list element is handed out exactly once.
func multiKeyOrder() *mc.Scenario {
	return &mc.Scenario{Name: "TKeyLockerGrp/multi-key-visit-order", PB: [2]int{0, 0}, Horizon: 1 << 30, NoStateCache: true,
		Main: func(w *mc.World) {
			for _, p := range []uint64{2, 3, 5, 7, 11, 13} {
				for _, xx := range []bool{false, true} {
					var l keylock.TLocker[int]
					if xx {
						l = keylock.NewTXHashTKeyLockeGrp[int](remap.WithPrime(p))
					} else {
						l = keylock.NewTKeyLockeGrp[int](remap.WithPrime(p))
					}
					const nk = 14
					for mask := 1; mask < 1<<nk; mask++ {
						var ks []int
						for k := 0; k < nk; k++ {
							if mask&(1<<k) != 0 {
								ks = append(ks, k+1)
							}
						}
						if len(ks) > 6 {
							continue
						}
						desc := make([]int, len(ks))
						for i, k := range ks {
							desc[len(ks)-1-i] = k
						}
						rot := append(append([]int{}, ks[len(ks)/2:]...), ks[:len(ks)/2]...)
						for _, list := range [][]int{ks, desc, rot} {
							for rep := 0; rep < 6; rep++ {
								idx, per, ok := keylock.VerifTGroupOrder[int](l, list)
								if !ok {
									w.Failf("harness: not a generic group locker")
									return
								}
								seen := map[int]int{}
								for gi, sh := range idx {
									if gi > 0 && idx[gi-1] >= sh {
										w.Failf("multi-key call on keys %v (%d shards, xxhash=%v) visits the shards in order %v - not ascending: two multi-key calls sharing two of these shards can take them in opposite orders and deadlock", list, p, xx, idx)
										return
									}
									for _, k := range per[gi] {
										seen[k]++
										if keylock.VerifTShard[int](l, k) != sh {
											w.Failf("multi-key call on keys %v (%d shards, xxhash=%v) hands key %d to shard %d, single-key calls route it to shard %d", list, p, xx, k, sh, keylock.VerifTShard[int](l, k))
											return
										}
									}
								}
								for _, k := range list {
									seen[k]--
								}
								for k, n := range seen {
									if n != 0 {
										w.Failf("multi-key call on keys %v (%d shards, xxhash=%v): key %d is handed out %+d times too often (groups %v)", list, p, xx, k, n, per)
										return
									}
								}
							}
						}
					}
				}
			}
		}}
}

var (
	bufA = func() *[]int { b := make([]int, 8); return &b }()
	bufB = func() *[]int { b := make([]int, 13); return &b }()
)

func withBuf(s step, b *[]int) step { s.buf = b; return s }

func shift(ks []int, d int) []int {
	o := make([]int, len(ks))
	for i, k := range ks {
		o[i] = k + d
	}
	return o
}

func seqKeys(n int) []int {
	o := make([]int, n)
	for i := range o {
		o[i] = i + 1
	}
	return o
}

func scenarios() []*mc.Scenario {
	var scs []*mc.Scenario
	for _, m := range lockers() {
		if m.name == "KeyLocker" || m.name == "TKeyLocker" || m.name == "KeyLockerGrp/shards=2" || m.name == "TXHashKeyLockerGrp/shards=3" {
			scs = append(scs, manyHolders(m, 257, [2]int{1, 1}), manyHolders(m, 65537, [2]int{0, 0}))
		}
		for _, p := range progs() {
			if p.multi && !m.multi {
				continue
			}
			if strings.Contains(m.name, "shards=1") && strings.HasPrefix(p.name, "excl") {
				continue // one shard delegates to the single locker: exclusion programs run there
			}
			scs = append(scs, scenario(m, p))
			if (m.name == "KeyLocker" || m.name == "TKeyLocker" || m.name == "TKeyLockerGrp/shards=2") && len(p.threads) <= 3 && (strings.HasPrefix(p.name, "excl/W|W|R") || strings.HasPrefix(p.name, "excl/R|R|W") || strings.HasPrefix(p.name, "multi/Locks[a,b]|Locks")) {
				fp := p
				fp.name += "/fine"
				fp.pb = [2]int{1, 2}
				sc := scenario(m, fp)
				sc.Fine = true
				scs = append(scs, sc)
			}
		}
	}
	scs = append(scs, multiKeyOrder())
	return scs
}

func main() {
	r := ev.Start("C02")
	r.Rule("every interleaving (at each table-mutex and per-key RWMutex point incl. the pending-writer phase, up to the stated preemption bound) of 2-4 goroutines doing Lock/RLock/Locks/RLocks - hold - unlock on the real KeyLocker, KeyLockerGrp, TKeyLocker[int], TKeyLockerGrp[int] with modulo/xxhash sharding and 1..3 shards; multi-key lists duplicate-free and consistent with one global key order, keys chosen so that shard order differs from list order; plus, for the generic group locker with 2..13 shards, the shard visiting order of every list of 1-6 out of 14 keys (three list orders, 6 repetitions): strictly ascending, routing as for single keys, each element once; oracles: per-key holder counters at every entry (multi-key callers count on every listed key), deadlock, entry residue at every scheduling decision where nobody is inside and at the end; distinct = (status, entry order) signatures")
	r.Assume("vsync model of sync.Mutex and sync.RWMutex (writer preference, readers blocked behind a writer admitted together)", "scenario bodies are data-race free")
	mc.Main(r, scenarios())
}
