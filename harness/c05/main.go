// C05: TTL cache — never serves expired/removed data, one-shot reads, bounded; redis agreement (engine H).
package main

import (
	"context"
	"fmt"
	"os"
	"sort"
	"strings"
	"time"

	"github.com/pinealctx/neptune/cache"
	"github.com/redis/go-redis/v9"

	"verifh/ev"
	"verifh/mc"
	"verifh/seq"
)

var clock int64 // virtual seconds; the package clock is process-global, so specs run one after another

var bg = context.Background()

// ---- reference model ----

type mkey struct {
	live   bool
	val    string
	dls    []int64         // the admissible deadlines (0 = never); more than one when an eviction may or may not have happened before a keep-ttl set
	others map[string]bool // distinct other keys mentioned since this key's last definite touch
}

func passed(d int64) bool { return d != 0 && clock > d }

func (k *mkey) maybeLive() bool {
	if !k.live {
		return false
	}
	for _, d := range k.dls {
		if !passed(d) {
			return true
		}
	}
	return false
}

func (k *mkey) maybeExpired() bool {
	for _, d := range k.dls {
		if passed(d) {
			return true
		}
	}
	return false
}

func (k *mkey) keepUnexpired() {
	var o []int64
	for _, d := range k.dls {
		if !passed(d) {
			o = append(o, d)
		}
	}
	k.dls = o
}

func addDl(l []int64, d int64) []int64 {
	for _, x := range l {
		if x == d {
			return l
		}
	}
	l = append(l, d)
	sort.Slice(l, func(i, j int) bool { return l[i] < l[j] })
	return l
}

type model struct {
	size   int
	defTTL int64
	keys   map[string]*mkey
}

func newModel(size int, def int64) *model {
	return &model{size: size, defTTL: def, keys: map[string]*mkey{"a": {}, "b": {}, "c": {}}}
}

func (m *model) expire() {
	for _, k := range m.keys {
		if k.live && !k.maybeLive() {
			k.live = false
		}
	}
}

func (m *model) mention(k string) {
	for name, o := range m.keys {
		if name != k && o.live {
			if o.others == nil {
				o.others = map[string]bool{}
			}
			o.others[k] = true
		}
	}
}

func (m *model) dl(ttl int64) int64 {
	if ttl <= 0 {
		return 0
	}
	return clock + ttl
}

// mayBeEvicted: the one-sided eviction clause — a live key may legitimately be gone only if at least
// `size` other distinct keys were mentioned since it was last set or read.
func (m *model) mayBeEvicted(k *mkey) bool { return len(k.others) >= m.size }

func (m *model) String() string {
	var s []string
	for _, n := range []string{"a", "b", "c"} {
		k := m.keys[n]
		if !k.live {
			s = append(s, n+":-")
			continue
		}
		d := ""
		for _, x := range k.dls {
			if x == 0 {
				d += "never,"
			} else {
				d += fmt.Sprint(x-clock) + ","
			}
		}
		var os []string
		for o := range k.others {
			os = append(os, o)
		}
		sort.Strings(os)
		s = append(s, fmt.Sprintf("%s:%s@%s/%s", n, k.val, d, strings.Join(os, "")))
	}
	return strings.Join(s, " ")
}

type st struct {
	c      cache.TTLCache
	m      *model
	nset   map[string]int
	t0     int64
	ticks  int64
	shared []byte // one caller-owned slice passed to several Sets (the cache must not write into it)
}

func (s *st) sync() { clock = s.t0 + s.ticks }

func errName(e error) string {
	switch e {
	case nil:
		return "ok"
	case cache.ErrTTLKeyExists:
		return "exists"
	case cache.ErrTTLKeyNotFound:
		return "notfound"
	}
	return "ERR:" + e.Error()
}

type setOpt struct {
	name string
	ttl  int64 // 0: default
	mne  bool
	keep bool
}

func (o setOpt) fns() []cache.SetOptFn {
	var f []cache.SetOptFn
	if o.ttl != 0 {
		f = append(f, cache.WithTTL(o.ttl))
	}
	if o.mne {
		f = append(f, cache.WithMustNotExist())
	}
	if o.keep {
		f = append(f, cache.WithKeepTTL())
	}
	return f
}

var setOpts = []setOpt{{"", 0, false, false}, {"TTL1", 1, false, false}, {"TTL3", 3, false, false}, {"MustNotExist", 0, true, false}, {"KeepTTL", 0, false, true}, {"MustNotExist+TTL1", 1, true, false}, {"KeepTTL+TTL1", 1, false, true}}

type getOpt struct {
	name   string
	remove bool
	upd    bool
	ttl    int64
}

func (o getOpt) fns() []cache.GetOptFn {
	var f []cache.GetOptFn
	if o.remove {
		f = append(f, cache.WithRemoveAfterGet())
	}
	if o.upd {
		f = append(f, cache.WithUpdateTTL(o.ttl))
	}
	return f
}

var getOpts = []getOpt{{"", false, false, 0}, {"RemoveAfterGet", true, false, 0}, {"UpdateTTL(0)", false, true, 0}, {"UpdateTTL(3)", false, true, 3}}

func ops(keys []string, sets []setOpt, gets []getOpt) []seq.Op[*st] {
	var o []seq.Op[*st]
	for _, k := range keys {
		k := k
		for _, so := range sets {
			so := so
			o = append(o, seq.Op[*st]{Name: fmt.Sprintf("Set(%s,%s)", k, so.name), Step: func(s *st) (string, string) {
				s.sync()
				s.nset[k]++
				v := fmt.Sprintf("%s%d", k, s.nset[k]%3)
				got := errName(s.c.Set(bg, k, []byte(v), so.fns()...))
				m := s.m
				m.expire()
				mk := m.keys[k]
				ttl := so.ttl
				if ttl == 0 {
					ttl = m.defTTL
				}
				defer m.mention(k)
				fresh := func() { *mk = mkey{live: true, val: v, dls: []int64{m.dl(ttl)}} }
				switch {
				case so.mne:
					if got == "exists" {
						if !mk.maybeLive() {
							return got, fmt.Sprintf("Set(%s, must-not-exist) returned exists but the key is absent (never set, removed, consumed or expired) — it must behave like a key that was never set", k)
						}
						mk.keepUnexpired()
						return got, ""
					}
					if got != "ok" {
						return got, fmt.Sprintf("Set(%s, must-not-exist) returned %s", k, got)
					}
					if mk.live && !mk.maybeExpired() && !m.mayBeEvicted(mk) {
						return got, fmt.Sprintf("Set(%s, must-not-exist) succeeded although the key is set, unexpired and cannot have been evicted", k)
					}
					fresh()
					return got, ""
				default:
					if got != "ok" {
						return got, fmt.Sprintf("Set(%s) returned %s", k, got)
					}
					if so.keep && mk.live {
						// keep-ttl keeps each still-admissible deadline; if the entry may be gone (expired or
						// evicted) the set may also have started a fresh deadline
						gone := mk.maybeExpired() || m.mayBeEvicted(mk)
						mk.keepUnexpired()
						if gone {
							mk.dls = addDl(mk.dls, m.dl(ttl))
						}
						mk.val = v
						mk.others = nil
						return got, ""
					}
					fresh()
					return got, ""
				}
			}})
		}
		// the same caller-owned slice is stored under several keys: overwriting one key later must not
		// change what another key returns, nor the caller's slice
		o = append(o, seq.Op[*st]{Name: fmt.Sprintf("SetSharedSlice(%s)", k), Step: func(s *st) (string, string) {
			s.sync()
			if s.shared == nil {
				s.shared = append(make([]byte, 0, 16), "SHARED"...)
			}
			got := errName(s.c.Set(bg, k, s.shared))
			s.m.expire()
			mk := s.m.keys[k]
			s.m.mention(k)
			if got != "ok" {
				return got, fmt.Sprintf("Set(%s, shared slice) returned %s", k, got)
			}
			*mk = mkey{live: true, val: "SHARED", dls: []int64{s.m.dl(s.m.defTTL)}}
			return got, ""
		}})
		for _, g := range gets {
			g := g
			o = append(o, seq.Op[*st]{Name: fmt.Sprintf("Get(%s,%s)", k, g.name), Step: func(s *st) (string, string) {
				s.sync()
				val, err := s.c.Get(bg, k, g.fns()...)
				got := errName(err)
				m := s.m
				m.expire()
				mk := m.keys[k]
				defer m.mention(k)
				if got == "notfound" {
					switch {
					case !mk.live:
						return got, ""
					case mk.maybeExpired():
						mk.live = false
						return "notfound(expired)", ""
					case m.mayBeEvicted(mk):
						mk.live = false
						return "notfound(evicted)", ""
					}
					return got, fmt.Sprintf("Get(%s) reports not-found but the key was set to %q, is unexpired, was not removed, and fewer than size=%d other keys were touched since", k, mk.val, m.size)
				}
				if got != "ok" {
					return got, fmt.Sprintf("Get(%s) failed: %s", k, got)
				}
				if !mk.maybeLive() {
					return got, fmt.Sprintf("Get(%s) returned %q but the key is absent (never set, removed, consumed by a remove-after-get read, or its time-to-live elapsed)", k, val)
				}
				if string(val) != mk.val {
					return got, fmt.Sprintf("Get(%s) returned %q, the latest Set stored %q", k, val, mk.val)
				}
				mk.keepUnexpired()
				mk.others = nil
				if g.remove {
					mk.live = false
				} else if g.upd {
					ttl := g.ttl
					if ttl == 0 {
						ttl = m.defTTL
					}
					mk.dls = []int64{m.dl(ttl)}
				}
				return "hit", ""
			}})
		}
		o = append(o, seq.Op[*st]{Name: fmt.Sprintf("Remove(%s)", k), Step: func(s *st) (string, string) {
			s.sync()
			got := errName(s.c.Remove(bg, k))
			s.m.expire()
			s.m.keys[k].live = false
			s.m.mention(k)
			if got != "ok" {
				return got, "Remove failed: " + got
			}
			return got, ""
		}})
	}
	o = append(o, seq.Op[*st]{Name: "Clear", Step: func(s *st) (string, string) {
		s.sync()
		s.c.Clear(bg)
		for _, k := range s.m.keys {
			k.live = false
		}
		return "", ""
	}})
	o = append(o, seq.Op[*st]{Name: "Tick(+2s)", Step: func(s *st) (string, string) {
		s.ticks += 2
		s.sync()
		s.m.expire()
		return "", ""
	}})
	return o
}

func afterShared(s *st) string {
	if s.shared != nil && string(s.shared) != "SHARED" {
		return fmt.Sprintf("the cache wrote into a slice the caller passed to Set: it now reads %q", s.shared)
	}
	return ""
}

// atEnd: final probe of all keys on a replayed copy: hits carry the latest value, at most `size`
// distinct keys are retrievable, live keys that cannot have been evicted are retrievable.
func atEnd(s *st) string {
	s.sync()
	s.m.expire()
	hits := 0
	for _, k := range []string{"a", "b", "c"} {
		mk := s.m.keys[k]
		val, err := s.c.Get(bg, k)
		switch {
		case err == nil:
			hits++
			if !mk.maybeLive() {
				return fmt.Sprintf("final probe: Get(%s) returned %q but the key is absent in the reference", k, val)
			}
			if string(val) != mk.val {
				return fmt.Sprintf("final probe: Get(%s) returned %q, latest Set stored %q", k, val, mk.val)
			}
		case err == cache.ErrTTLKeyNotFound:
			if mk.live && !mk.maybeExpired() && !s.m.mayBeEvicted(mk) {
				return fmt.Sprintf("final probe: Get(%s) not found but the key is live and fewer than size other keys were touched since", k)
			}
		default:
			return "final probe failed: " + err.Error()
		}
		// probing mentions k for the remaining keys (generous)
		s.m.mention(k)
	}
	if hits > s.m.size {
		return fmt.Sprintf("%d distinct keys are retrievable from a cache of size %d", hits, s.m.size)
	}
	return ""
}

func sig(path []string, msg string) string {
	op := path[len(path)-1]
	// class: op kind with options, key letter dropped; message up to first quote/digit detail
	op = strings.NewReplacer("(a,", "(k,", "(b,", "(k,", "(c,", "(k,", "(a)", "(k)", "(b)", "(k)", "(c)", "(k)").Replace(op)
	m := msg
	for _, cut := range []string{" returned ", " reports ", ": Get(", " distinct keys"} {
		if i := strings.Index(m, cut); i > 0 {
			rest := m[i:]
			if j := strings.Index(rest, "but"); j > 0 {
				m = strings.TrimSpace(rest[j:])
			} else {
				m = strings.TrimSpace(rest)
			}
			break
		}
	}
	m = strings.Map(func(r rune) rune {
		if r >= '0' && r <= '9' {
			return -1
		}
		return r
	}, m)
	if len(m) > 120 {
		m = m[:120]
	}
	return op + ": " + m
}

// ---------------- redis agreement ----------------

type rent struct {
	val []byte
	exp int64 // ns, 0 = never
}

type fakeRedis struct {
	redis.Cmdable
	data    map[string]*rent
	log     []string
	cursors map[uint64]string
	ncur    uint64
	foreign []string // keys of other users of the same database
}

func nowNs() int64 { return clock * int64(time.Second) }

func (f *fakeRedis) live(k string) *rent {
	e := f.data[k]
	if e == nil {
		return nil
	}
	if e.exp != 0 && nowNs() >= e.exp {
		delete(f.data, k)
		return nil
	}
	return e
}

func (f *fakeRedis) expAt(d time.Duration) int64 {
	if d <= 0 {
		return 0
	}
	return nowNs() + int64(d)
}

func bytesOf(v interface{}) []byte {
	switch x := v.(type) {
	case []byte:
		return append([]byte(nil), x...)
	case string:
		return []byte(x)
	}
	return []byte(fmt.Sprint(v))
}

func (f *fakeRedis) SetNX(ctx context.Context, key string, value interface{}, d time.Duration) *redis.BoolCmd {
	f.log = append(f.log, fmt.Sprintf("SETNX %s ex=%v", key, d))
	c := redis.NewBoolCmd(ctx)
	if f.live(key) != nil {
		c.SetVal(false)
		return c
	}
	f.data[key] = &rent{bytesOf(value), f.expAt(d)}
	c.SetVal(true)
	return c
}

func (f *fakeRedis) Set(ctx context.Context, key string, value interface{}, d time.Duration) *redis.StatusCmd {
	f.log = append(f.log, fmt.Sprintf("SET %s ex=%v", key, d))
	c := redis.NewStatusCmd(ctx)
	if d == redis.KeepTTL {
		if e := f.live(key); e != nil {
			e.val = bytesOf(value)
		} else {
			f.data[key] = &rent{bytesOf(value), 0}
		}
	} else {
		f.data[key] = &rent{bytesOf(value), f.expAt(d)}
	}
	c.SetVal("OK")
	return c
}

func (f *fakeRedis) Get(ctx context.Context, key string) *redis.StringCmd {
	c := redis.NewStringCmd(ctx)
	if e := f.live(key); e != nil {
		c.SetVal(string(e.val))
	} else {
		c.SetErr(redis.Nil)
	}
	return c
}

func (f *fakeRedis) GetDel(ctx context.Context, key string) *redis.StringCmd {
	c := redis.NewStringCmd(ctx)
	if e := f.live(key); e != nil {
		c.SetVal(string(e.val))
		delete(f.data, key)
	} else {
		c.SetErr(redis.Nil)
	}
	return c
}

func (f *fakeRedis) Expire(ctx context.Context, key string, d time.Duration) *redis.BoolCmd {
	f.log = append(f.log, fmt.Sprintf("EXPIRE %s %v", key, d))
	c := redis.NewBoolCmd(ctx)
	e := f.live(key)
	if e == nil {
		c.SetVal(false)
		return c
	}
	if d <= 0 {
		delete(f.data, key)
	} else {
		e.exp = nowNs() + int64(d)
	}
	c.SetVal(true)
	return c
}

func (f *fakeRedis) Del(ctx context.Context, keys ...string) *redis.IntCmd {
	c := redis.NewIntCmd(ctx)
	n := int64(0)
	for _, k := range keys {
		if f.live(k) != nil {
			n++
		}
		delete(f.data, k)
	}
	c.SetVal(n)
	return c
}

// Scan follows the documented SCAN contract: the keyspace (ALL keys, whatever the pattern) is walked in
// steps of COUNT (default 10) slots, each call returns the matching keys of one step - possibly none -
// and a cursor that is 0 only when the walk is complete; elements present during the whole walk are
// returned at least once (the cursor remembers the last key visited, so deletions between calls do
// not shift it).  The ScanCmd's process function serves the iterator's follow-up calls.
func (f *fakeRedis) scanPage(cursor uint64, match string, count int64) ([]string, uint64) {
	if count <= 0 {
		count = 10
	}
	var all []string
	for k := range f.data {
		all = append(all, k)
	}
	sort.Strings(all)
	after := ""
	if cursor != 0 {
		after = f.cursors[cursor]
	}
	var out []string
	pre := strings.TrimSuffix(match, "*")
	n := int64(0)
	last := ""
	more := false
	for _, k := range all {
		if cursor != 0 && k <= after {
			continue
		}
		if n == count {
			more = true
			break
		}
		n++
		last = k
		if strings.HasPrefix(k, pre) && f.live(k) != nil {
			out = append(out, k)
		}
	}
	if !more {
		return out, 0
	}
	f.ncur++
	if f.cursors == nil {
		f.cursors = map[uint64]string{}
	}
	f.cursors[f.ncur] = last
	return out, f.ncur
}

func (f *fakeRedis) Scan(ctx context.Context, cursor uint64, match string, count int64) *redis.ScanCmd {
	f.log = append(f.log, fmt.Sprintf("SCAN %d %s", cursor, match))
	args := []interface{}{"scan", cursor, "match", match}
	if count > 0 {
		args = append(args, "count", count)
	}
	c := redis.NewScanCmd(ctx, func(ctx context.Context, cmd redis.Cmder) error {
		sc := cmd.(*redis.ScanCmd)
		a := sc.Args()
		var cur uint64
		fmt.Sscan(fmt.Sprint(a[1]), &cur)
		ks, next := f.scanPage(cur, match, count)
		sc.SetVal(ks, next)
		return nil
	}, args...)
	ks, next := f.scanPage(cursor, match, count)
	c.SetVal(ks, next)
	return c
}

type duo struct {
	mem, rds cache.TTLCache
	fake     *fakeRedis
	nset     int
	ticks    int64
	liveKeys map[string]bool // keys live by the in-memory cache's own answers (keep-ttl restriction)
}

func duoOps() []seq.Op[*duo] {
	var o []seq.Op[*duo]
	sets := []setOpt{{"", 0, false, false}, {"TTL1", 1, false, false}, {"TTL3", 3, false, false}, {"MustNotExist", 0, true, false}, {"MustNotExist+TTL1", 1, true, false}, {"KeepTTL", 0, false, true}}
	gets := []getOpt{{"", false, false, 0}, {"RemoveAfterGet", true, false, 0}, {"UpdateTTL(0)", false, true, 0}, {"UpdateTTL(1)", false, true, 1}, {"UpdateTTL(3)", false, true, 3}}
	for _, k := range []string{"a", "b"} {
		k := k
		for _, so := range sets {
			so := so
			op := seq.Op[*duo]{Name: fmt.Sprintf("Set(%s,%s)", k, so.name), Step: func(s *duo) (string, string) {
				clock = 100 + s.ticks
				s.nset++
				v := []byte(fmt.Sprintf("%s%d", k, s.nset%3))
				e1 := errName(s.mem.Set(bg, k, v, so.fns()...))
				e2 := errName(s.rds.Set(bg, k, v, so.fns()...))
				if e1 != e2 {
					return e1, fmt.Sprintf("Set(%s,%s): in-memory cache answers %s, redis-backed cache answers %s (commands %v)", k, so.name, e1, e2, tail(s.fake.log))
				}
				return e1, ""
			}}
			if so.keep {
				// keep-ttl only on keys that are live (the comparison's own restriction)
				op.Enabled = func(s *duo) bool {
					clock = 100 + s.ticks
					_, err := s.fakeProbe(k)
					return err == nil
				}
			}
			o = append(o, op)
		}
		for _, g := range gets {
			g := g
			o = append(o, seq.Op[*duo]{Name: fmt.Sprintf("Get(%s,%s)", k, g.name), Step: func(s *duo) (string, string) {
				clock = 100 + s.ticks
				v1, err1 := s.mem.Get(bg, k, g.fns()...)
				v2, err2 := s.rds.Get(bg, k, g.fns()...)
				e1, e2 := errName(err1), errName(err2)
				if e1 != e2 || (err1 == nil && string(v1) != string(v2)) {
					return e1, fmt.Sprintf("Get(%s,%s): in-memory cache answers %s %q, redis-backed cache answers %s %q (commands %v)", k, g.name, e1, v1, e2, v2, tail(s.fake.log))
				}
				return e1, ""
			}})
		}
		o = append(o, seq.Op[*duo]{Name: fmt.Sprintf("Remove(%s)", k), Step: func(s *duo) (string, string) {
			clock = 100 + s.ticks
			e1, e2 := errName(s.mem.Remove(bg, k)), errName(s.rds.Remove(bg, k))
			if e1 != e2 {
				return e1, fmt.Sprintf("Remove(%s): %s vs %s", k, e1, e2)
			}
			return e1, ""
		}})
	}
	o = append(o, seq.Op[*duo]{Name: "Clear", Step: func(s *duo) (string, string) {
		clock = 100 + s.ticks
		s.mem.Clear(bg)
		s.rds.Clear(bg)
		return "", ""
	}})
	o = append(o, seq.Op[*duo]{Name: "Tick(+2s)", Step: func(s *duo) (string, string) { s.ticks += 2; return "", "" }})
	return o
}

func tail(l []string) []string {
	if len(l) > 3 {
		return l[len(l)-3:]
	}
	return l
}

func (s *duo) fakeProbe(k string) ([]byte, error) {
	e := s.fake.live("p:" + k)
	if e == nil {
		return nil, cache.ErrTTLKeyNotFound
	}
	return e.val, nil
}

func duoAfter(s *duo) string {
	clock = 100 + s.ticks
	for _, k := range s.fake.foreign {
		if e := s.fake.data[k]; e == nil || string(e.val) != "foreign" {
			return fmt.Sprintf("key %q of another user of the same redis database was removed or changed by the cache (commands %v)", k, tail(s.fake.log))
		}
	}
	return ""
}

func duoEnd(s *duo) string {
	clock = 100 + s.ticks
	for _, k := range []string{"a", "b"} {
		v1, err1 := s.mem.Get(bg, k)
		v2, err2 := s.rds.Get(bg, k)
		if errName(err1) != errName(err2) || (err1 == nil && string(v1) != string(v2)) {
			return fmt.Sprintf("final probe Get(%s): in-memory %s %q, redis-backed %s %q", k, errName(err1), v1, errName(err2), v2)
		}
	}
	return ""
}

func duoKey(s *duo) string {
	clock = 100 + s.ticks
	var ks []string
	for k, e := range s.fake.data {
		if s.fake.live(k) == nil || !strings.HasPrefix(k, "p:") {
			continue
		}
		d := "never"
		if e.exp != 0 {
			d = fmt.Sprint(e.exp - nowNs())
		}
		ks = append(ks, fmt.Sprintf("%s=%s@%s", k, e.val, d))
	}
	sort.Strings(ks)
	return cache.VerifTTLDump(s.mem) + "||" + strings.Join(ks, ",") + fmt.Sprint(s.nset%3)
}

// manyKeys: the in-memory cache with tens to thousands of keys present at once, then removed again in
// several orders and ways - after every removal the removed key is gone (Get, set-if-absent) and every
// other key is still there; sizes on both sides of 64 / 256 / 1024, where index structures re-organise.
func manyKeys(c *seq.Ctx) {
	for _, n := range []int{10, 63, 64, 65, 100, 255, 256, 257, 1000, 1025} {
		for _, order := range []string{"ascending", "descending", "every-third-first"} {
			for _, how := range []string{"remove", "remove-after-get"} {
				clock = 100
				tc := cache.NewTTLMemCache(n+8, 0)
				key := func(i int) string { return fmt.Sprintf("k%d", i) }
				for i := 0; i < n; i++ {
					_ = tc.Set(bg, key(i), []byte(key(i)))
				}
				var ord []int
				switch order {
				case "ascending":
					for i := 0; i < n; i++ {
						ord = append(ord, i)
					}
				case "descending":
					for i := n - 1; i >= 0; i-- {
						ord = append(ord, i)
					}
				default:
					for r := 0; r < 3; r++ {
						for i := r; i < n; i += 3 {
							ord = append(ord, i)
						}
					}
				}
				gone := map[int]bool{}
				bad := ""
				for step, i := range ord {
					if how == "remove" {
						_ = tc.Remove(bg, key(i))
					} else if v, err := tc.Get(bg, key(i), cache.WithRemoveAfterGet()); err != nil || string(v) != key(i) {
						bad = fmt.Sprintf("removal no. %d: remove-after-get of %s = %q, %v", step+1, key(i), v, err)
						break
					}
					gone[i] = true
					if v, err := tc.Get(bg, key(i)); err == nil {
						bad = fmt.Sprintf("removal no. %d of %d keys (%s, %s): Get(%s) after its removal = %q", step+1, n, order, how, key(i), v)
						break
					}
					// probe a few survivors and earlier victims
					for _, j := range []int{ord[0], ord[step/2], ord[len(ord)-1], (i + 1) % n, (i + n - 1) % n} {
						v, err := tc.Get(bg, key(j))
						if gone[j] && err == nil {
							bad = fmt.Sprintf("removal no. %d of %d keys (%s, %s): %s, removed earlier, is readable again (%q)", step+1, n, order, how, key(j), v)
						} else if !gone[j] && (err != nil || string(v) != key(j)) {
							bad = fmt.Sprintf("removal no. %d of %d keys (%s, %s): %s, never removed, reads %q, %v", step+1, n, order, how, key(j), v, err)
						}
					}
					if bad != "" {
						break
					}
				}
				if bad == "" {
					if err := tc.Set(bg, key(ord[0]), []byte("again"), cache.WithMustNotExist()); err != nil {
						bad = fmt.Sprintf("%d keys removed (%s, %s): set-if-absent of a removed key refused: %v", n, order, how, err)
					}
				}
				c.Case(fmt.Sprintf("many/%s/%s/%v", order, how, bad == ""), bad, "a removed key is served again / a live key is lost when many keys were present", func() interface{} {
					return map[string]interface{}{"keys": n, "order": order, "how": how}
				})
			}
		}
	}
}

func main() {
	r := ev.Start("C05")
	r.Rule("breadth-first over all sequences of Set (7 option combinations) / Get (plain, remove-after-get, update-ttl 0/3) / Remove / Clear / clock advance over keys a,b,c on the real in-memory cache for size 0,1,2,3 x default ttl 0/3 under a virtual clock; states merged on (complete implementation state dump with deadlines relative to the clock, reference state); every call's answer and a final probe of all keys on a replayed copy are checked against an 'expired = absent' reference with the one-sided eviction clause; the same histories over two keys on the in-memory and the redis-backed cache (in-memory fake redis.Cmdable with real time.Duration semantics) must agree on every hit/miss, value and already-exists answer; distinct = (op, answer) pairs")
	r.Assume("ttls are odd and the clock advances by 2 s, so no reading falls exactly on a deadline", "eviction is checked one-sidedly: a live key may be missing only if >= size other distinct keys were mentioned since it was last set or read", "fake redis: SETNX/SET[KEEPTTL]/GET/GETDEL/EXPIRE/DEL/SCAN with expiry at now+duration")
	// the package clock is process-global: every specification runs in its own worker process
	type job struct {
		name string
		run  func()
	}
	var jobs []job
	keys := []string{"a", "b", "c"}
	for _, size := range []int{0, 1, 2, 3} {
		for _, def := range []int64{0, 3} {
			size, def := size, def
			name := fmt.Sprintf("ttlmem/size=%d/defaultTTL=%d", size, def)
			jobs = append(jobs, job{name, func() {
				seq.Explore(r, &seq.Spec[*st]{Name: name, Ops: ops(keys, setOpts, getOpts), Depth: r.Pick(6, 8), Sig: sig, AtEnd: atEnd, After: afterShared, MaxViolations: 12,
					New: func() *st {
						clock = 100
						return &st{c: cache.NewTTLMemCache(size, def), m: newModel(size, def), nset: map[string]int{}, t0: 100}
					},
					Key: func(s *st) string {
						s.sync()
						s.m.expire()
						return cache.VerifTTLDump(s.c) + "||" + s.m.String() + fmt.Sprint(s.nset["a"]%3, s.nset["b"]%3, s.nset["c"]%3)
					}})
			}})
		}
	}
	jobs = append(jobs, job{"redis-agreement", func() {
		seq.Explore(r, &seq.Spec[*duo]{Name: "redis-agreement/defaultTTL=3", Ops: duoOps(), Depth: r.Pick(7, 9), AtEnd: duoEnd, After: duoAfter, Key: duoKey, MaxViolations: 12,
			Sig: func(path []string, msg string) string {
				op := path[len(path)-1]
				op = strings.NewReplacer("(a,", "(k,", "(b,", "(k,", "(a)", "(k)", "(b)", "(k)").Replace(op)
				return op + ": in-memory and redis-backed caches disagree"
			},
			New: func() *duo {
				clock = 100
				f := &fakeRedis{data: map[string]*rent{}}
				return &duo{mem: cache.NewTTLMemCache(1000, 3), rds: cache.NewTTLRdsCache(f, "p:", 3), fake: f}
			}})
	}})
	jobs = append(jobs, job{"many-keys", func() { seq.RunFamily(r, seq.Family{Name: "ttlmem/many-keys-then-removals", Run: manyKeys}) }})
	jobs = append(jobs, job{"redis-agreement/shared-database", func() {
		seq.Explore(r, &seq.Spec[*duo]{Name: "redis-agreement/shared-database/defaultTTL=3", Ops: duoOps(), Depth: r.Pick(6, 8), AtEnd: duoEnd, After: duoAfter, Key: duoKey, MaxViolations: 12,
			Sig: func(path []string, msg string) string {
				op := path[len(path)-1]
				op = strings.NewReplacer("(a,", "(k,", "(b,", "(k,", "(a)", "(k)", "(b)", "(k)").Replace(op)
				return op + ": in-memory and redis-backed caches disagree (database shared with other prefixes)"
			},
			New: func() *duo {
				clock = 100
				f := &fakeRedis{data: map[string]*rent{}}
				// other users' keys: more than a SCAN step of them before, between and after the cache's own keys
				for i := 0; i < 13; i++ {
					for _, pre := range []string{"a:", "p:a", "p2:", "q:"} {
						k := fmt.Sprintf("%s%02d", pre, i)
						if pre == "p:a" {
							k = fmt.Sprintf("p%02d:a", i) // sorts between "p2:" and "p:" neighbours, never matches "p:*"
						}
						f.data[k] = &rent{[]byte("foreign"), 0}
						f.foreign = append(f.foreign, k)
					}
				}
				return &duo{mem: cache.NewTTLMemCache(1000, 3), rds: cache.NewTTLRdsCache(f, "p:", 3), fake: f}
			}})
	}})
	if r.Shard != "" {
		restore := cache.VerifSetNow(func() int64 { return clock })
		defer restore()
		var k int
		fmt.Sscanf(r.Shard, "%d", &k)
		if k >= 0 && k < len(jobs) && r.Want(jobs[k].name) {
			jobs[k].run()
		}
		r.EmitWorker()
		return
	}
	if nd := mc.Drive(r, os.Args[0], len(jobs)); nd != "" && r.NViolations() == 0 {
		fmt.Println("worker failure (machinery error, not a verdict):", nd)
		r.Finish0(2)
	}
	if r.Only == "" {
		if nd := mc.DriveBin(r, os.Getenv("VERIF_SCHED_BIN")); nd != "" && r.NViolations() == 0 {
			fmt.Println("engine-S companion failed (machinery error, not a verdict):", nd)
			r.Finish0(2)
		}
	}
	r.Finish()
}
