// C13: no lost wake-ups; close releases every blocked consumer (engine S).
package main

import (
	"fmt"
	"github.com/pinealctx/neptune/zverif/vtime"
	"strings"
	"time"

	"github.com/pinealctx/neptune/queue/priq"
	"github.com/pinealctx/neptune/queue/syncq"
	"github.com/pinealctx/neptune/syncx/pipe/async"
	"github.com/pinealctx/neptune/syncx/pipe/mq"
	"github.com/pinealctx/neptune/syncx/pipe/mux"
	"github.com/pinealctx/neptune/syncx/pipe/q"
	"github.com/pinealctx/neptune/zverif/vsync"

	"verifh/ev"
	"verifh/mc"
)

// qa adapts the five cond-based queues.
type qa struct {
	name             string
	add              func(v int) bool
	addPrior         func(v int) bool
	pop              func() (int, bool)
	popAnyway        func() (int, bool) // nil: same as pop, and pop hands out remaining items after close
	close            func()
	drainsAfterClose bool               // pop itself returns remaining items after close (sync queue)
	tryPop           func() (int, bool) // non-blocking pop, if the queue has one
}

func iv(v interface{}, err error) (int, bool) {
	if err != nil || v == nil {
		return 0, false
	}
	return v.(int), true
}

var makers = []func() *qa{
	func() *qa {
		x := q.NewQ()
		return &qa{name: "pipe/q", add: func(v int) bool { return x.AddReq(v) == nil }, addPrior: func(v int) bool { return x.AddPriorReq(v) == nil },
			pop: func() (int, bool) { return iv(x.Pop()) }, popAnyway: func() (int, bool) { return iv(x.PopAnyway()) }, close: x.Close}
	},
	func() *qa {
		x := async.NewQ(0)
		return &qa{name: "pipe/async", add: func(v int) bool { return x.Add(v) == nil }, addPrior: func(v int) bool { return x.AddPrior(v) == nil },
			pop: func() (int, bool) { return iv(x.Pop()) }, popAnyway: func() (int, bool) { return iv(x.PopAnyway()) }, close: x.Close}
	},
	func() *qa {
		x := mux.NewQ(0)
		return &qa{name: "pipe/mux", add: func(v int) bool { return x.AddReq(v) == nil }, addPrior: func(v int) bool { return x.AddPriorReq(v) == nil },
			pop: func() (int, bool) { return iv(x.Pop()) }, popAnyway: func() (int, bool) { return iv(x.PopAnyway()) }, close: x.Close}
	},
	func() *qa {
		x := mq.NewMQ()
		return &qa{name: "pipe/mq-req", add: func(v int) bool { return x.AddReq(v) == nil }, addPrior: func(v int) bool { return x.AddPriorReq(v) == nil },
			pop: func() (int, bool) { return iv(x.Pop()) }, popAnyway: func() (int, bool) { return iv(x.PopAnyway()) }, close: x.Close}
	},
	func() *qa {
		x := mq.NewMQ()
		return &qa{name: "pipe/mq-ctrl", add: func(v int) bool { return x.AddCtrl(v) == nil }, addPrior: func(v int) bool { return x.AddPriorCtrl(v) == nil },
			pop: func() (int, bool) { return iv(x.Pop()) }, popAnyway: func() (int, bool) { return iv(x.PopAnyway()) }, close: x.Close}
	},
	func() *qa {
		x := syncq.NewSyncQueue()
		return &qa{name: "syncq", add: func(v int) bool { x.Push(v); return true },
			pop: func() (int, bool) {
				v := x.Pop()
				if v == nil {
					return 0, false
				}
				return v.(int), true
			}, close: x.Close, drainsAfterClose: true,
			tryPop: func() (int, bool) {
				v, ok := x.TryPop()
				if !ok || v == nil {
					return 0, false
				}
				return v.(int), true
			}}
	},
}

type popRes struct {
	v  int
	ok bool
}

func fmtRes(rs []popRes) string {
	var s []string
	for _, r := range rs {
		if r.ok {
			s = append(s, fmt.Sprint(r.v))
		} else {
			s = append(s, "closed")
		}
	}
	return strings.Join(s, ",")
}

// scenario: k consumers ∥ producers adding items ∥ optional closer.
// anyway: consumers use PopAnyway; prior: producers use the prior add.
func condScenario(mk func() *qa, k int, prod [][]int, closer, anyway, prior bool, closeAfterProd bool) *mc.Scenario {
	probe := mk()
	var total []int
	for _, p := range prod {
		total = append(total, p...)
	}
	name := fmt.Sprintf("%s/consumers=%d/producers=%v/close=%v/anyway=%v/prior=%v/closeAfterProd=%v", probe.name, k, prod, closer, anyway, prior, closeAfterProd)
	pb := [2]int{3, 4}
	if k+len(prod) >= 5 {
		pb = [2]int{1, 2}
	} else if k+len(prod) >= 4 {
		pb = [2]int{2, 3}
	}
	return &mc.Scenario{
		Name: name,
		PB:   pb,
		Main: func(w *mc.World) {
			x := mk()
			res := make([]popRes, k)
			accepted := map[int]bool{}
			var tried []int // items taken by non-blocking pops
			for i := 0; i < k; i++ {
				i := i
				w.Go(fmt.Sprintf("consumer%d", i), func() {
					var v int
					var ok bool
					if anyway && x.popAnyway != nil {
						v, ok = x.popAnyway()
					} else {
						v, ok = x.pop()
					}
					res[i] = popRes{v, ok}
				})
			}
			var prodThreads []*vsync.Thread
			for pi, items := range prod {
				items := items
				prodThreads = append(prodThreads, w.Go(fmt.Sprintf("producer%d", pi), func() {
					for _, it := range items {
						var ok bool
						switch {
						case it == 0: // a non-blocking pop issued by the producer thread
							if v, got := x.tryPop(); got {
								w.Touch()
								tried = append(tried, v)
							}
							continue
						case it < 0 && x.addPrior != nil: // this one item goes in with the prior add
							it = -it
							ok = x.addPrior(it)
						case it < 0:
							it = -it
							ok = x.add(it)
						case prior && x.addPrior != nil:
							ok = x.addPrior(it)
						default:
							ok = x.add(it)
						}
						if ok {
							w.Touch()
							accepted[it] = true
						}
					}
				}))
			}
			if closer {
				w.Go("closer", func() {
					if closeAfterProd {
						w.Join(prodThreads...)
					}
					x.close()
				})
			}
			w.Join()
			// every consumer returned (otherwise the execution deadlocks and never gets here)
			seen := map[int]bool{}
			got := 0
			for _, v := range tried {
				if seen[v] || !accepted[v] {
					w.Failf("TryPop handed out item %d twice or an item never accepted: %s", v, fmtRes(res))
				}
				seen[v] = true
			}
			for _, r := range res {
				if r.ok {
					if seen[r.v] {
						w.Failf("item %d handed out twice: %s", r.v, fmtRes(res))
					}
					seen[r.v] = true
					if !accepted[r.v] {
						w.Failf("item %d was handed out but never accepted: %s", r.v, fmtRes(res))
					}
					got++
				}
			}
			if !closer {
				// k items for k consumers: everybody gets one
				if got != k {
					w.Failf("%d consumers, %d items added, no close, but only %d items handed out: %s", k, len(total), got, fmtRes(res))
				}
			} else if (anyway && x.popAnyway != nil) || (x.drainsAfterClose && closeAfterProd) {
				// items accepted before the close are handed out by draining pops: min(k, accepted) come out
				want := len(accepted) - len(tried)
				if want > k {
					want = k
				}
				if got != want {
					w.Failf("items accepted before close must be handed out by draining pops: want %d got %d: %s", want, got, fmtRes(res))
				}
			}
			w.Obs("res=%s", fmtRes(res))
		},
	}
}

// ---- retry-until-accepted adds on a bounded lane ----
//
// The *Anyway adds sleep and retry while the lane is full.  time.Sleep in the queue packages is
// redirected to a scheduler-visible wait: the sleeper is parked until a pop or an add of
// another thread has returned (a retry without such progress would find the lane exactly as full), so the retry
// loop is explored without unrolling it.
type anyQ struct {
	name           string
	add, addAnyway func(v int) bool
	pop            func() (int, bool)
}

var anyMakers = []func() *anyQ{
	func() *anyQ {
		x := q.NewQ(q.WithSize(1))
		return &anyQ{"pipe/q(cap=1)", func(v int) bool { return x.AddReq(v) == nil }, func(v int) bool { return x.AddReqAnyway(v, 0) == nil }, func() (int, bool) { return iv(x.Pop()) }}
	},
	func() *anyQ {
		x := async.NewQ(1)
		return &anyQ{"pipe/async(cap=1)", func(v int) bool { return x.Add(v) == nil }, func(v int) bool { return x.AddAnyway(v, time.Millisecond) == nil }, func() (int, bool) { return iv(x.Pop()) }}
	},
	func() *anyQ {
		x := mux.NewQ(1)
		return &anyQ{"pipe/mux(cap=1)", func(v int) bool { return x.AddReq(v) == nil }, func(v int) bool { return x.AddReqAnyway(v, time.Millisecond) == nil }, func() (int, bool) { return iv(x.Pop()) }}
	},
	func() *anyQ {
		x := mq.NewMQ(mq.WithQCtrlSize(1), mq.WithQReqSize(1))
		return &anyQ{"pipe/mq-req(cap=1)", func(v int) bool { return x.AddReq(v) == nil }, func(v int) bool { return x.AddReqAnyway(v, time.Millisecond) == nil }, func() (int, bool) { return iv(x.Pop()) }}
	},
	func() *anyQ {
		x := mq.NewMQ(mq.WithQCtrlSize(1), mq.WithQReqSize(1))
		return &anyQ{"pipe/mq-ctrl(cap=1)", func(v int) bool { return x.AddCtrl(v) == nil }, func(v int) bool { return x.AddCtrlAnyway(v, time.Millisecond) == nil }, func() (int, bool) { return iv(x.Pop()) }}
	},
}

func anywayScenario(mk func() *anyQ, consumers int, prog []int) *mc.Scenario {
	probe := mk()
	return &mc.Scenario{Name: fmt.Sprintf("%s/retrying-add/consumers=%d/producer=%v", probe.name, consumers, prog), PB: [2]int{2, 3}, NoStateCache: true,
		Main: func(w *mc.World) {
			progress := 0 // bumped whenever a pop or an add returns: a retry makes sense only after one of those
			vtime.SleepFn = func(time.Duration) {
				w.Touch()
				p0 := progress
				vsync.BlockOn(func() bool { return progress != p0 })
			}
			x := mk()
			got := make([]popRes, consumers)
			for i := 0; i < consumers; i++ {
				i := i
				w.Go(fmt.Sprintf("consumer%d", i), func() {
					v, ok := x.pop()
					w.Touch()
					progress++
					got[i] = popRes{v, ok}
				})
			}
			accepted := 0
			w.Go("producer", func() {
				for _, it := range prog {
					ok := false
					if it < 0 {
						ok = x.addAnyway(-it) // retried until accepted
						if !ok {
							w.Failf("the retrying add of %d gave up on an open queue", -it)
						}
					} else {
						ok = x.add(it)
					}
					w.Touch()
					progress++
					if ok {
						accepted++
					}
				}
			})
			w.Join()
			w.Touch()
			n := 0
			for _, g := range got {
				if g.ok {
					n++
				}
			}
			want := accepted
			if want > consumers {
				want = consumers
			}
			if n != want {
				w.Failf("%d items accepted, %d consumers, but %d items handed out: %s", accepted, consumers, n, fmtRes(got))
			}
			w.Obs("res=%s accepted=%d", fmtRes(got), accepted)
		}}
}

// anywayMany: several producers retrying on one full bounded lane, one consumer popping several times in
// a row (so that it parks again before a woken producer has re-added).
func anywayMany(mk func() *anyQ, pops int, producers [][]int) *mc.Scenario {
	probe := mk()
	return &mc.Scenario{Name: fmt.Sprintf("%s/retrying-adds/one-consumer-pops=%d/producers=%v", probe.name, pops, producers), PB: [2]int{2, 3}, NoStateCache: true,
		Main: func(w *mc.World) {
			progress := 0 // bumped whenever a pop or an add returns: a retry makes sense only after one of those
			vtime.SleepFn = func(time.Duration) {
				w.Touch()
				p0 := progress
				vsync.BlockOn(func() bool { return progress != p0 })
			}
			x := mk()
			got := 0
			w.Go("consumer", func() {
				for i := 0; i < pops; i++ {
					_, ok := x.pop()
					w.Touch()
					progress++
					if ok {
						got++
					}
				}
			})
			for pi, prog := range producers {
				prog := prog
				w.Go(fmt.Sprintf("producer%d", pi), func() {
					for _, it := range prog {
						if it < 0 {
							if !x.addAnyway(-it) {
								w.Failf("the retrying add of %d gave up on an open queue", -it)
							}
						} else {
							x.add(it)
						}
						w.Touch()
						progress++
					}
				})
			}
			w.Join()
			w.Touch()
			if got != pops {
				w.Failf("%d pops returned an item, want %d", got, pops)
			}
		}}
}

// ---- priority queue ----

type ent struct{ p, id int }

func (e ent) GetPriority() int { return e.p }

func priqScenario(capacity int, prod [][]ent, consumers int) *mc.Scenario {
	total := 0
	for _, p := range prod {
		total += len(p)
	}
	name := fmt.Sprintf("priq/cap=%d/producers=%v/consumers=%d", capacity, prod, consumers)
	type st struct {
		q        *priq.PriQueue
		inflight int
		holding  int
	}
	return &mc.Scenario{
		Name: name,
		PB:   [2]int{3, 4},
		Main: func(w *mc.World) {
			x := &st{q: priq.NewPriQueue(capacity)}
			w.Data["st"] = x
			done := make(chan struct{})
			consumed := 0
			var got []int
			for pi, items := range prod {
				items := items
				w.Go(fmt.Sprintf("producer%d", pi), func() {
					for _, it := range items {
						x.inflight++
						err := x.q.Push(it)
						x.inflight--
						if err != nil {
							w.Failf("push refused below capacity: %v", err)
						}
					}
				})
			}
			for ci := 0; ci < consumers; ci++ {
				w.Go(fmt.Sprintf("consumer%d", ci), func() {
					ch := x.q.WaitCh()
					for {
						switch vsync.Select(false, vsync.R(ch), vsync.R(done)) {
						case 0:
							<-ch
							x.holding++
							// a consumer that selected the channel pops once
							x.holding--
							x.inflight++
							e := x.q.Pop()
							x.inflight--
							if e != nil {
								got = append(got, e.(ent).id)
								consumed++
								if consumed == total {
									vsync.Close(done)
								}
							}
						case 1:
							return
						}
					}
				})
			}
			w.Join()
			if consumed != total {
				w.Failf("consumed %d of %d", consumed, total)
			}
			seen := map[int]bool{}
			for _, id := range got {
				if seen[id] {
					w.Failf("entry %d popped twice", id)
				}
				seen[id] = true
			}
			w.Obs("got=%v", got)
		},
		Invariant: func(w *mc.World) error {
			xi, ok := w.Data["st"]
			if !ok {
				return nil
			}
			x := xi.(*st)
			if x.inflight != 0 || x.holding != 0 {
				return nil
			}
			n := x.q.Len()
			if n > 0 && len(x.q.WaitCh()) == 0 {
				return fmt.Errorf("queue holds %d entries, no Push/Pop in progress, no consumer holds a signal, but the wait channel is not readable", n)
			}
			return nil
		},
	}
}

func scenarios(r *ev.Run) []*mc.Scenario {
	var scs []*mc.Scenario
	for _, mk := range makers {
		hasAnyway := mk().popAnyway != nil
		hasPrior := mk().addPrior != nil
		// (a) k blocked consumers, close
		for _, k := range []int{2, 3} {
			scs = append(scs, condScenario(mk, k, nil, true, false, false, false))
		}
		// (b) k consumers, k items from one / two producers
		scs = append(scs, condScenario(mk, 2, [][]int{{1, 2}}, false, false, false, false))
		scs = append(scs, condScenario(mk, 2, [][]int{{1}, {2}}, false, false, false, false))
		scs = append(scs, condScenario(mk, 3, [][]int{{1, 2, 3}}, false, false, false, false))
		scs = append(scs, condScenario(mk, 3, [][]int{{1, 2}, {3}}, false, false, false, false))
		if hasPrior {
			scs = append(scs, condScenario(mk, 2, [][]int{{1, 2}}, false, false, true, false))
			scs = append(scs, condScenario(mk, 2, [][]int{{1}, {2}}, false, true, true, false))
		}
		if hasPrior {
			// one producer mixing the ordinary and the prior add
			scs = append(scs, condScenario(mk, 2, [][]int{{1, -2}}, false, false, false, false))
			scs = append(scs, condScenario(mk, 2, [][]int{{-1, 2}}, false, false, false, false))
			scs = append(scs, condScenario(mk, 3, [][]int{{1, -2, 3}}, false, false, false, false))
			scs = append(scs, condScenario(mk, 2, [][]int{{1}, {-2}}, false, hasAnyway, false, false))
		}
		if mk().tryPop != nil {
			// blocking and non-blocking pops mixed: the producer takes an item back in between
			scs = append(scs, condScenario(mk, 1, [][]int{{1, 0, 2}}, false, false, false, false))
			scs = append(scs, condScenario(mk, 2, [][]int{{1, 0, 2, 3}}, false, false, false, false))
			scs = append(scs, condScenario(mk, 1, [][]int{{1, 2}, {0, 3}}, false, false, false, false))
			scs = append(scs, condScenario(mk, 2, [][]int{{1, 0, 2}}, true, false, false, true))
		}
		// (c) mixed add/close races
		scs = append(scs, condScenario(mk, 2, [][]int{{1}}, true, false, false, false))
		scs = append(scs, condScenario(mk, 2, [][]int{{1}}, true, false, false, true))
		scs = append(scs, condScenario(mk, 3, [][]int{{1}, {2}}, true, false, false, false))
		if hasAnyway {
			scs = append(scs, condScenario(mk, 2, nil, true, true, false, false))
			scs = append(scs, condScenario(mk, 2, [][]int{{1}}, true, true, false, true))
			scs = append(scs, condScenario(mk, 3, [][]int{{1, 2}}, true, true, false, true))
			scs = append(scs, condScenario(mk, 2, [][]int{{1}}, true, true, false, false))
			scs = append(scs, condScenario(mk, 2, [][]int{{1, 2}}, false, true, false, false))
		}
	}
	for _, mk := range anyMakers {
		scs = append(scs, anywayMany(mk, 3, [][]int{{-1}, {-2}, {-3}}), anywayMany(mk, 2, [][]int{{1, -2}, {-3}}))
		scs = append(scs, anywayScenario(mk, 2, []int{1, -2}), anywayScenario(mk, 2, []int{-1, -2}), anywayScenario(mk, 3, []int{1, -2, -3}))
	}
	scs = append(scs,
		priqScenario(4, [][]ent{{{1, 1}, {1, 2}}}, 1),
		priqScenario(4, [][]ent{{{1, 1}, {1, 2}}}, 2),
		priqScenario(4, [][]ent{{{1, 1}}, {{2, 2}}}, 1),
		priqScenario(4, [][]ent{{{1, 1}}, {{2, 2}}}, 2),
		priqScenario(4, [][]ent{{{1, 1}, {0, 2}}, {{2, 3}}}, 2),
		priqScenario(4, [][]ent{{{1, 1}, {0, 2}, {1, 3}}}, 2),
	)
	// statement-level interleavings inside the queue code (lock misuse) for the smallest programs
	for _, mk := range makers {
		for _, sc := range []*mc.Scenario{
			condScenario(mk, 2, nil, true, false, false, false),
			condScenario(mk, 2, [][]int{{1, 2}}, false, false, false, false),
			condScenario(mk, 2, [][]int{{1}}, true, mk().popAnyway != nil, false, false),
		} {
			sc.Name += "/fine"
			sc.Fine = true
			sc.PB = [2]int{1, 2}
			scs = append(scs, sc)
		}
	}
	fp := priqScenario(4, [][]ent{{{1, 1}}, {{2, 2}}}, 1)
	fp.Name += "/fine"
	fp.Fine = true
	fp.PB = [2]int{1, 2}
	scs = append(scs, fp)
	return scs
}

func main() {
	r := ev.Start("C13")
	r.Rule("every interleaving (at each mutex/cond/channel/select point, up to the stated preemption bound) of k consumers blocked or arriving in Pop/PopAnyway, producers and a closer on the real queues; an execution is one complete schedule; distinct = distinct (status, values returned to every consumer) outcome signatures")
	r.Assume("vsync model of sync.Mutex/Cond (FIFO Signal) and buffered channels", "scenario bodies are data-race free (points only at acquire-type operations)")
	mc.Main(r, scenarios(r))
}
