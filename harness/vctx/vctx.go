// Package vctx is a context whose cancellation is a visible, schedulable event under the vsync
// controlled scheduler (context.WithCancel would close its channel from runtime internals the
// scheduler cannot see).
package vctx

import (
	"context"
	"time"

	"github.com/pinealctx/neptune/zverif/vsync"
)

// Ctx implements context.Context.
type Ctx struct {
	done     chan struct{}
	canceled bool
}

// New returns a live context.
func New() *Ctx { return &Ctx{done: make(chan struct{})} }

// Canceled returns an already-cancelled context.
func Canceled() *Ctx { c := New(); c.Cancel(); return c }

func (c *Ctx) Deadline() (time.Time, bool)       { return time.Time{}, false }
func (c *Ctx) Done() <-chan struct{}             { return c.done }
func (c *Ctx) Value(key interface{}) interface{} { return nil }
func (c *Ctx) Err() error {
	if c.canceled {
		return context.Canceled
	}
	return nil
}

// Cancel cancels the context (idempotent).
func (c *Ctx) Cancel() {
	if c.canceled {
		return
	}
	c.canceled = true
	vsync.Close(c.done)
}

// IsCanceled reports whether Cancel was called.
func (c *Ctx) IsCanceled() bool { return c.canceled }
