// C08: bitmap1024 set algebra and ordered, bounded iteration (engine I).
package main

import (
	"fmt"
	"math"
	"math/bits"
	"sort"
	"sync"

	bm "github.com/pinealctx/neptune/bitmap1024"

	"verifh/ev"
	"verifh/seq"
)

// iter is one iterator of either layer, normalised to int64 output.
// run calls the real iterator on a slice of exactly size elements pre-filled with a sentinel and returns
// the count and the slice converted to int64 (sentinel converted too).
type iter struct {
	name     string
	rev      bool
	wrap     func(v int64) int64
	adds     []int64
	run64    func(w bm.Bit64, size, pos int, add int64, n int) (int, []int64)
	run1024  func(b bm.Bit1024, size, pos int, add int64, n int) (int, []int64)
	sentinel int64
}

const sent = 0x55

func iters() []iter {
	mk := func(name string, rev bool, wrap func(int64) int64, adds []int64) iter {
		return iter{name: name, rev: rev, wrap: wrap, adds: adds, sentinel: wrap(sent)}
	}
	w64 := func(v int64) int64 { return v }
	w32 := func(v int64) int64 { return int64(int32(v)) }
	wu32 := func(v int64) int64 { return int64(uint32(v)) }
	w16 := func(v int64) int64 { return int64(int16(v)) }
	w8 := func(v int64) int64 { return int64(int8(v)) }
	var out []iter
	for _, rev := range []bool{false, true} {
		rev := rev
		nm := func(s string) string {
			if rev {
				return "R" + s
			}
			return s
		}
		a := mk(nm("IterAsI64"), rev, w64, []int64{0, 1 << 40, -7})
		a.run64 = func(w bm.Bit64, size, pos int, add int64, n int) (int, []int64) {
			s := make([]int64, size)
			for i := range s {
				s[i] = sent
			}
			var c int
			if rev {
				c = w.RIterAsI64(s, pos, add, n)
			} else {
				c = w.IterAsI64(s, pos, add, n)
			}
			return c, s
		}
		a.run1024 = func(b bm.Bit1024, size, pos int, add int64, n int) (int, []int64) {
			s := make([]int64, size)
			for i := range s {
				s[i] = sent
			}
			var c int
			if rev {
				c = b.RIterAsI64(s, pos, add, n)
			} else {
				c = b.IterAsI64(s, pos, add, n)
			}
			return c, s
		}
		out = append(out, a)

		b := mk(nm("IterAsI32"), rev, w32, []int64{0, 1 << 20, -7, 1<<31 - 10})
		b.run64 = func(w bm.Bit64, size, pos int, add int64, n int) (int, []int64) {
			s := make([]int32, size)
			for i := range s {
				s[i] = sent
			}
			var c int
			if rev {
				c = w.RIterAsI32(s, pos, int32(add), n)
			} else {
				c = w.IterAsI32(s, pos, int32(add), n)
			}
			o := make([]int64, size)
			for i := range s {
				o[i] = int64(s[i])
			}
			return c, o
		}
		b.run1024 = func(x bm.Bit1024, size, pos int, add int64, n int) (int, []int64) {
			s := make([]int32, size)
			for i := range s {
				s[i] = sent
			}
			var c int
			if rev {
				c = x.RIterAsI32(s, pos, int32(add), n)
			} else {
				c = x.IterAsI32(s, pos, int32(add), n)
			}
			o := make([]int64, size)
			for i := range s {
				o[i] = int64(s[i])
			}
			return c, o
		}
		out = append(out, b)

		u := mk(nm("IterAsU32"), rev, wu32, []int64{0, 1 << 20, 1<<32 - 10})
		u.run64 = func(w bm.Bit64, size, pos int, add int64, n int) (int, []int64) {
			s := make([]uint32, size)
			for i := range s {
				s[i] = sent
			}
			var c int
			if rev {
				c = w.RIterAsU32(s, pos, uint32(add), n)
			} else {
				c = w.IterAsU32(s, pos, uint32(add), n)
			}
			o := make([]int64, size)
			for i := range s {
				o[i] = int64(s[i])
			}
			return c, o
		}
		u.run1024 = func(x bm.Bit1024, size, pos int, add int64, n int) (int, []int64) {
			s := make([]uint32, size)
			for i := range s {
				s[i] = sent
			}
			var c int
			if rev {
				c = x.RIterAsU32(s, pos, uint32(add), n)
			} else {
				c = x.IterAsU32(s, pos, uint32(add), n)
			}
			o := make([]int64, size)
			for i := range s {
				o[i] = int64(s[i])
			}
			return c, o
		}
		out = append(out, u)

		h := mk(nm("IterAsI16"), rev, w16, []int64{0, 1000, -7, 1<<15 - 10})
		h.run64 = func(w bm.Bit64, size, pos int, add int64, n int) (int, []int64) {
			s := make([]int16, size)
			for i := range s {
				s[i] = sent
			}
			var c int
			if rev {
				c = w.RIterAsI16(s, pos, int16(add), n)
			} else {
				c = w.IterAsI16(s, pos, int16(add), n)
			}
			o := make([]int64, size)
			for i := range s {
				o[i] = int64(s[i])
			}
			return c, o
		}
		h.run1024 = func(x bm.Bit1024, size, pos int, add int64, n int) (int, []int64) {
			s := make([]int16, size)
			for i := range s {
				s[i] = sent
			}
			var c int
			if rev {
				c = x.RIterAsI16(s, pos, int16(add), n)
			} else {
				c = x.IterAsI16(s, pos, int16(add), n)
			}
			o := make([]int64, size)
			for i := range s {
				o[i] = int64(s[i])
			}
			return c, o
		}
		out = append(out, h)

		e := mk(nm("IterAsI8"), rev, w8, []int64{0, 50, -7, 100})
		e.run64 = func(w bm.Bit64, size, pos int, add int64, n int) (int, []int64) {
			s := make([]int8, size)
			for i := range s {
				s[i] = sent
			}
			var c int
			if rev {
				c = w.RIterAsI8(s, pos, int8(add), n)
			} else {
				c = w.IterAsI8(s, pos, int8(add), n)
			}
			o := make([]int64, size)
			for i := range s {
				o[i] = int64(s[i])
			}
			return c, o
		}
		out = append(out, e)
	}
	return out
}

func members64(w uint64) []int64 {
	var m []int64
	for i := 0; i < 64; i++ {
		if w>>uint(i)&1 == 1 {
			m = append(m, int64(i))
		}
	}
	return m
}

func reversed(m []int64) []int64 {
	o := make([]int64, len(m))
	for i := range m {
		o[i] = m[len(m)-1-i]
	}
	return o
}

// checkIter runs one iterator call and compares with the member list.
func checkIter(it *iter, mem []int64, run func(size, pos int, add int64, n int) (int, []int64), pos int, add int64, n int) string {
	l := len(mem)
	want := n
	if want < 0 {
		want = 0
	}
	if want > l {
		want = l
	}
	size := pos + want + 1
	var cnt int
	var out []int64
	pan := func() (p string) {
		defer func() {
			if r := recover(); r != nil {
				p = fmt.Sprint(r)
			}
		}()
		cnt, out = run(size, pos, add, n)
		return ""
	}()
	if pan != "" {
		return fmt.Sprintf("panicked with a slice that has room for min(n,Len) items after pos: %s", pan)
	}
	if cnt != want {
		return fmt.Sprintf("returned count %d, want min(n,Len)=%d (n=%d Len=%d)", cnt, want, n, l)
	}
	src := mem
	if it.rev {
		src = reversed(mem)
	}
	for i := 0; i < size; i++ {
		var w int64
		if i >= pos && i < pos+want {
			w = it.wrap(src[i-pos] + add)
		} else {
			w = it.sentinel
		}
		if out[i] != w {
			return fmt.Sprintf("slot %d holds %d, want %d (pos=%d add=%d n=%d members=%v…)", i, out[i], w, pos, add, n, head(src))
		}
	}
	return ""
}

func head(m []int64) []int64 {
	if len(m) > 6 {
		return m[:6]
	}
	return m
}

func nValues(l, capN int) []int {
	set := map[int]bool{-1: true, 0: true, 1: true, l - 1: true, l: true, l + 1: true, capN: true, capN + 1: true, 2: true}
	var o []int
	for k := range set {
		if k >= -1 {
			o = append(o, k)
		}
	}
	sort.Ints(o)
	return o
}

// iterNValues: the counts passed to the iterators - nValues plus counts at the ends of the int range
// (a caller asking for "all of them" passes a huge n; pos + n must not be computed carelessly)
func iterNValues(l, capN int) []int {
	return append(nValues(l, capN), math.MaxInt32, math.MaxInt-3, math.MaxInt-1, math.MaxInt, math.MinInt, math.MinInt+1, -2)
}

func addIdx(gi, nv, ln int) int {
	k := nv % 5
	if k < 0 {
		k += 5
	}
	return (gi + k + 2) % ln
}

// ---------------- 64-bit layer ----------------

func words(quick bool) []uint64 {
	seen := map[uint64]bool{}
	var out []uint64
	add := func(w uint64) {
		if !seen[w] {
			seen[w] = true
			out = append(out, w)
		}
	}
	add(0)
	add(^uint64(0))
	for i := 0; i < 64; i++ {
		add(1 << uint(i))
		add(^(uint64(1) << uint(i)))
		for j := i + 1; j < 64; j++ {
			add(1<<uint(i) | 1<<uint(j))
			add(^(uint64(1)<<uint(i) | 1<<uint(j)))
		}
	}
	for a := 0; a < 64; a++ {
		for b := a; b < 64; b++ {
			var w uint64
			for k := a; k <= b; k++ {
				w |= 1 << uint(k)
			}
			add(w)
		}
	}
	lanes := 4
	step := 1
	if quick {
		lanes = 1
		step = 5
	}
	for lane := 0; lane < lanes; lane++ {
		for p := 0; p < 65536; p += step {
			w := uint64(p) << uint(16*lane)
			add(w)
			add(^w)
		}
	}
	return out
}

func layer64(r *ev.Run) {
	ws := words(r.Quick())
	byLen := map[int][]uint64{}
	for _, w := range ws {
		l := bits.OnesCount64(w)
		byLen[l] = append(byLen[l], w)
	}
	its := iters()
	var mu sync.Mutex
	total := int64(0)
	outcomes := map[string]bool{}
	for l := 0; l <= 64; l++ {
		group := byLen[l]
		if len(group) == 0 {
			continue
		}
		for _, thr := range []int{l - 1, l, l + 1, 9} {
			if thr < -1 {
				continue
			}
			if thr == 9 && (l == 8 || l == 9 || l == 10) {
				continue
			}
			bm.VerifSetSparseMagic(int32(thr))
			const shards = 16
			var jobs []func()
			for sh := 0; sh < shards; sh++ {
				sh := sh
				jobs = append(jobs, func() {
					var n int64
					loc := map[string]bool{}
					for gi := sh; gi < len(group); gi += shards {
						w := group[gi]
						mem := members64(w)
						b := bm.Bit64(w)
						if b.Len() != l || b.NLen() != 64-l {
							r.Violate(ev.Violation{Signature: "bit64: Len/NLen wrong", Scenario: "bit64", What: fmt.Sprintf("word %#x: Len=%d NLen=%d want %d/%d", w, b.Len(), b.NLen(), l, 64-l), Replay: map[string]interface{}{"word": fmt.Sprintf("%#x", w)}})
						}
						for ii := range its {
							it := &its[ii]
							for _, nv := range iterNValues(l, 64) {
								for pi, pos := range []int{0, 3} {
									add := it.adds[0]
									if pi == 1 {
										add = it.adds[addIdx(gi, nv, len(it.adds))]
									}
									n++
									bad := checkIter(it, mem, func(size, pos int, add int64, nn int) (int, []int64) { return it.run64(b, size, pos, add, nn) }, pos, add, nv)
									loc[fmt.Sprintf("%s/dense=%v/n<l=%v/%v", it.name, l > thr, nv < l, bad == "")] = true
									if bad != "" {
										branch := "sparse"
										if l > thr {
											branch = "dense"
										}
										r.Violate(ev.Violation{Signature: fmt.Sprintf("bit64: %s (%s branch) wrong", it.name, branch), Scenario: "bit64/" + it.name,
											What:   fmt.Sprintf("Bit64(%#x).%s(pos=%d, add=%d, n=%d) with sparse threshold %d: %s", w, it.name, pos, add, nv, thr, bad),
											Replay: map[string]interface{}{"word": fmt.Sprintf("%#x", w), "iter": it.name, "pos": pos, "add": add, "n": nv, "threshold": thr}})
									}
								}
							}
						}
						// GetN* (n >= 0)
						for _, nv := range nValues(l, 64) {
							if nv < 0 {
								continue
							}
							want := nv
							if want > l {
								want = l
							}
							chk := func(name string, got []int64, rev bool) {
								n++
								src := mem
								if rev {
									src = reversed(mem)
								}
								ok := len(got) == want
								for i := 0; ok && i < want; i++ {
									ok = got[i] == src[i]
								}
								if !ok {
									r.Violate(ev.Violation{Signature: "bit64: " + name + " wrong", Scenario: "bit64/" + name, What: fmt.Sprintf("Bit64(%#x).%s(%d) = %v (threshold %d), want first %d of %v", w, name, nv, got, thr, want, head(src)),
										Replay: map[string]interface{}{"word": fmt.Sprintf("%#x", w), "fn": name, "n": nv, "threshold": thr}})
								}
							}
							chk("GetNAsI64", guardGet(func() []int64 { return b.GetNAsI64(nv) }), false)
							chk("RGetNAsI64", guardGet(func() []int64 { return b.RGetNAsI64(nv) }), true)
							chk("GetNAsI32", guardGet(func() []int64 { return conv32(b.GetNAsI32(nv)) }), false)
							chk("RGetNAsI32", guardGet(func() []int64 { return conv32(b.RGetNAsI32(nv)) }), true)
							chk("GetNAsI16", guardGet(func() []int64 { return conv16(b.GetNAsI16(nv)) }), false)
							chk("RGetNAsI16", guardGet(func() []int64 { return conv16(b.RGetNAsI16(nv)) }), true)
							chk("GetNAsI8", guardGet(func() []int64 { return conv8(b.GetNAsI8(nv)) }), false)
							chk("RGetNAsI8", guardGet(func() []int64 { return conv8(b.RGetNAsI8(nv)) }), true)
						}
					}
					mu.Lock()
					total += n
					for k := range loc {
						outcomes[k] = true
					}
					mu.Unlock()
				})
			}
			seq.Parallel(shards, jobs)
		}
	}
	// set / unset / algebra on the word layer
	setN := int64(0)
	for _, w := range []uint64{0, ^uint64(0), 0xaaaaaaaaaaaaaaaa, 1, 1 << 63} {
		for i := 0; i < 256; i++ {
			b := bm.Bit64(w)
			b.Set(byte(i))
			want := w
			if i < 64 {
				want |= 1 << uint(i)
			}
			c := bm.Bit64(w)
			c.Unset(byte(i))
			wantU := w
			if i < 64 {
				wantU &^= 1 << uint(i)
			}
			setN += 2
			if uint64(b) != want || uint64(c) != wantU {
				r.Violate(ev.Violation{Signature: "bit64: Set/Unset changes other than exactly the addressed bit", Scenario: "bit64/set", What: fmt.Sprintf("word %#x index %d: Set->%#x (want %#x) Unset->%#x (want %#x)", w, i, uint64(b), want, uint64(c), wantU), Replay: map[string]interface{}{"word": fmt.Sprintf("%#x", w), "index": i}})
			}
		}
	}
	sample := ws[len(ws)/2]
	r.Sample(map[string]interface{}{"layer": "64-bit", "word": fmt.Sprintf("%#x", sample), "iterators": 10, "thresholds": "popcount-1, popcount, popcount+1, 9"})
	r.AddPart(ev.Part{Name: "bit64/iterators", Evaluations: total + setN, States: int64(len(ws)), Transitions: total + setN, Outcomes: int64(len(outcomes)), Exhaustive: true, Blocked: true,
		Bound: fmt.Sprintf("%d words (popcount<=2 and >=62, all intervals, 16-bit lane patterns and complements), both traversal branches each", len(ws))})
}

// guardGet runs a GetN call; a panic is turned into a result that cannot match (reported by chk).
func guardGet(f func() []int64) (out []int64) {
	defer func() {
		if r := recover(); r != nil {
			out = []int64{-987654321, -987654321, -987654321}
		}
	}()
	return f()
}

func conv32(s []int32) []int64 {
	o := make([]int64, len(s))
	for i, v := range s {
		o[i] = int64(v)
	}
	return o
}
func conv16(s []int16) []int64 {
	o := make([]int64, len(s))
	for i, v := range s {
		o[i] = int64(v)
	}
	return o
}
func conv8(s []int8) []int64 {
	o := make([]int64, len(s))
	for i, v := range s {
		o[i] = int64(v)
	}
	return o
}

// ---------------- 1024-bit layer ----------------

type set1024 [1024]bool

func (s *set1024) members() []int64 {
	var m []int64
	for i, v := range s {
		if v {
			m = append(m, int64(i))
		}
	}
	return m
}

func build(s *set1024) bm.Bit1024 {
	b := bm.NewBit1024()
	for i, v := range s {
		if v {
			if i%2 == 0 {
				b.SetI16(int16(i))
			} else {
				b.SetI32(int32(i))
			}
		}
	}
	return b
}

func observe(b bm.Bit1024) []int64 { return conv16(b.GetNAsI16(1024)) }

func eq(a, b []int64) bool {
	if len(a) != len(b) {
		return false
	}
	for i := range a {
		if a[i] != b[i] {
			return false
		}
	}
	return true
}

var alpha12 = []int{0, 1, 63, 64, 65, 127, 128, 511, 512, 960, 1022, 1023}

func family1024(quick bool) []*set1024 {
	var out []*set1024
	for mask := 0; mask < 1<<12; mask++ {
		if quick && mask%3 != 0 && bits.OnesCount(uint(mask)) > 2 {
			continue
		}
		s := &set1024{}
		for k, idx := range alpha12 {
			if mask>>uint(k)&1 == 1 {
				s[idx] = true
			}
		}
		out = append(out, s)
		c := &set1024{}
		for i := range c {
			c[i] = !s[i]
		}
		out = append(out, c)
	}
	// per-word class vectors: empty / 1 bit / sparse(3) / dense(40) / full with <= 3 non-empty words
	fill := func(s *set1024, word, class int) {
		base := word * 64
		switch class {
		case 1:
			s[base+(word*7)%64] = true
		case 2:
			s[base] = true
			s[base+31] = true
			s[base+63] = true
		case 3:
			for k := 0; k < 40; k++ {
				s[base+(k*3+word)%64] = true
			}
		case 4:
			for k := 0; k < 64; k++ {
				s[base+k] = true
			}
		}
	}
	maxW := 3
	if quick {
		maxW = 2
	}
	for a := 0; a < 16; a++ {
		for ca := 1; ca <= 4; ca++ {
			s := &set1024{}
			fill(s, a, ca)
			out = append(out, s)
			for b := a + 1; b < 16; b++ {
				for cb := 1; cb <= 4; cb++ {
					s2 := &set1024{}
					fill(s2, a, ca)
					fill(s2, b, cb)
					out = append(out, s2)
					if maxW < 3 {
						continue
					}
					for c := b + 1; c < 16; c++ {
						for cc := 1; cc <= 4; cc++ {
							if (a+b+c+ca+cb+cc)%4 != 0 {
								continue
							}
							s3 := &set1024{}
							fill(s3, a, ca)
							fill(s3, b, cb)
							fill(s3, c, cc)
							out = append(out, s3)
						}
					}
				}
			}
		}
	}
	return out
}

func layer1024(r *ev.Run) {
	fam := family1024(r.Quick())
	its := iters()
	var its1024 []*iter
	for i := range its {
		if its[i].run1024 != nil {
			its1024 = append(its1024, &its[i])
		}
	}
	var mu sync.Mutex
	total := int64(0)
	outcomes := map[string]bool{}
	for _, thr := range []int{0, 9, 64, 2} {
		bm.VerifSetSparseMagic(int32(thr))
		const shards = 16
		var jobs []func()
		for sh := 0; sh < shards; sh++ {
			sh := sh
			jobs = append(jobs, func() {
				var n int64
				loc := map[string]bool{}
				for gi := sh; gi < len(fam); gi += shards {
					s := fam[gi]
					mem := s.members()
					l := len(mem)
					b := build(s)
					n++
					if b.Len() != l || b.NLen() != 1024-l {
						r.Violate(ev.Violation{Signature: "bit1024: Len/NLen wrong", Scenario: "bit1024", What: fmt.Sprintf("members %v…: Len=%d NLen=%d want %d", head(mem), b.Len(), b.NLen(), l), Replay: map[string]interface{}{"members": mem}})
					}
					for _, it := range its1024 {
						for _, nv := range iterNValues(l, 1024) {
							for pi, pos := range []int{0, 3} {
								add := it.adds[0]
								if pi == 1 {
									add = it.adds[addIdx(gi, nv, len(it.adds))]
								}
								n++
								bad := checkIter(it, mem, func(size, pos int, add int64, nn int) (int, []int64) { return it.run1024(b, size, pos, add, nn) }, pos, add, nv)
								loc[fmt.Sprintf("%s/thr=%d/n<l=%v/%v", it.name, thr, nv < l, bad == "")] = true
								if bad != "" {
									r.Violate(ev.Violation{Signature: fmt.Sprintf("bit1024: %s wrong", it.name), Scenario: "bit1024/" + it.name,
										What:   fmt.Sprintf("Bit1024{%v…, Len %d}.%s(pos=%d, add=%d, n=%d) with sparse threshold %d: %s", head(mem), l, it.name, pos, add, nv, thr, bad),
										Replay: map[string]interface{}{"members": mem, "iter": it.name, "pos": pos, "add": add, "n": nv, "threshold": thr}})
								}
							}
						}
					}
					for _, nv := range nValues(l, 1024) {
						if nv < 0 {
							continue
						}
						want := nv
						if want > l {
							want = l
						}
						chk := func(name string, got []int64, rev bool) {
							n++
							src := mem
							if rev {
								src = reversed(mem)
							}
							if !eq(got, src[:want]) {
								r.Violate(ev.Violation{Signature: "bit1024: " + name + " wrong", Scenario: "bit1024/" + name, What: fmt.Sprintf("Bit1024{%v…}.%s(%d) = %v… want first %d of %v… (threshold %d)", head(mem), name, nv, head(got), want, head(src), thr),
									Replay: map[string]interface{}{"members": mem, "fn": name, "n": nv, "threshold": thr}})
							}
						}
						chk("GetNAsI64", guardGet(func() []int64 { return b.GetNAsI64(nv) }), false)
						chk("RGetNAsI64", guardGet(func() []int64 { return b.RGetNAsI64(nv) }), true)
						chk("GetNAsI32", guardGet(func() []int64 { return conv32(b.GetNAsI32(nv)) }), false)
						chk("RGetNAsI32", guardGet(func() []int64 { return conv32(b.RGetNAsI32(nv)) }), true)
						chk("GetNAsI16", guardGet(func() []int64 { return conv16(b.GetNAsI16(nv)) }), false)
						chk("RGetNAsI16", guardGet(func() []int64 { return conv16(b.RGetNAsI16(nv)) }), true)
					}
				}
				mu.Lock()
				total += n
				for k := range loc {
					outcomes[k] = true
				}
				mu.Unlock()
			})
		}
		seq.Parallel(shards, jobs)
	}
	bm.VerifSetSparseMagic(9)
	r.Sample(map[string]interface{}{"layer": "1024-bit", "members": fam[len(fam)/3].members(), "iterators": 8, "thresholds": []int{0, 2, 9, 64}})
	r.AddPart(ev.Part{Name: "bit1024/iterators", Evaluations: total, States: int64(len(fam)), Transitions: total, Outcomes: int64(len(outcomes)), Exhaustive: true, Blocked: true,
		Bound: fmt.Sprintf("%d bitmaps (subsets of a 12-index boundary alphabet with complements, per-word class vectors), thresholds 0/2/9/64", len(fam))})
}

func algebra(r *ev.Run) {
	bm.VerifSetSparseMagic(9)
	// set / unset: every int16 and boundary int32 on three base bitmaps
	bases := []*set1024{{}, {}, {}}
	for i := range bases[1] {
		bases[1][i] = true
		bases[2][i] = i%3 == 0
	}
	var n int64
	var mu sync.Mutex
	var jobs []func()
	idx32 := []int32{-1 << 31, -65537, -65536, -1025, -1024, -65, -64, -63, -1, 0, 1, 63, 64, 1023, 1024, 1025, 1087, 1088, 65535, 65536, 65536 + 5, 1<<31 - 1, 1 << 16 * 3}
	for bi, base := range bases {
		bi, base := bi, base
		for part := 0; part < 8; part++ {
			part := part
			jobs = append(jobs, func() {
				var k int64
				mem0 := base.members()
				try := func(name string, idx int64, apply func(b bm.Bit1024)) {
					b := build(base)
					apply(b)
					model := *base
					if idx >= 0 && idx < 1024 {
						model[idx] = name[0] == 'S'
					}
					k++
					if got := observe(b); !eq(got, model.members()) {
						r.Violate(ev.Violation{Signature: "bit1024: " + name + " changes other than exactly the addressed index", Scenario: "bit1024/set", What: fmt.Sprintf("%s(%d) on base #%d (Len %d): members now %d, want %d", name, idx, bi, len(mem0), len(got), len(model.members())),
							Replay: map[string]interface{}{"op": name, "index": idx, "base": bi}})
					}
				}
				for v := -32768 + part; v <= 32767; v += 8 {
					if v > 1100 && v < 32000 && v%97 != 0 || v < -1100 && v > -32000 && v%97 != 0 {
						continue // the arithmetic is per word/bit: far-out-of-range int16 values are sampled every 97th, the near range completely
					}
					v16 := int16(v)
					try("SetI16", int64(v), func(b bm.Bit1024) { b.SetI16(v16) })
					try("UnsetI16", int64(v), func(b bm.Bit1024) { b.UnsetI16(v16) })
					try("SetI32", int64(v), func(b bm.Bit1024) { b.SetI32(int32(v16)) })
					try("UnsetI32", int64(v), func(b bm.Bit1024) { b.UnsetI32(int32(v16)) })
				}
				if part == 0 {
					for _, v := range idx32 {
						v := v
						try("SetI32", int64(v), func(b bm.Bit1024) { b.SetI32(v) })
						try("UnsetI32", int64(v), func(b bm.Bit1024) { b.UnsetI32(v) })
					}
				}
				mu.Lock()
				n += k
				mu.Unlock()
			})
		}
	}
	seq.Parallel(16, jobs)
	r.AddPart(ev.Part{Name: "bit1024/set-unset", Evaluations: n, States: n, Transitions: n, Outcomes: 4, Exhaustive: true, Blocked: true, Bound: "int16 in [-1100,1100] completely, every 97th beyond, boundary int32; three base bitmaps"})

	// binary algebra on all pairs of a subfamily
	fam := family1024(true)
	sz := 128
	if !r.Quick() {
		sz = 400
	}
	stride := len(fam) / sz
	var sub []*set1024
	for i := 0; i < len(fam) && len(sub) < sz; i += stride {
		sub = append(sub, fam[i])
	}
	var pairs int64
	jobs = nil
	for sh := 0; sh < 16; sh++ {
		sh := sh
		jobs = append(jobs, func() {
			var k int64
			for i := sh; i < len(sub); i += 16 {
				a := sub[i]
				ba := build(a)
				for _, c := range sub {
					bc := build(c)
					var and, or, rev, orr set1024
					same := true
					for x := 0; x < 1024; x++ {
						and[x] = a[x] && c[x]
						or[x] = a[x] || c[x]
						rev[x] = !a[x]
						orr[x] = !(a[x] || c[x])
						if a[x] != c[x] {
							same = false
						}
					}
					k++
					bad := ""
					switch {
					case !eq(observe(ba.And(bc)), and.members()):
						bad = "And is not intersection"
					case !eq(observe(ba.Or(bc)), or.members()):
						bad = "Or is not union"
					case !eq(observe(ba.Reverse()), rev.members()):
						bad = "Reverse is not complement"
					case !eq(observe(ba.OrThenReverse(bc)), orr.members()):
						bad = "OrThenReverse is not complement of union"
					case ba.Equal(bc) != same:
						bad = "Equal is not set equality"
					case !eq(observe(ba), a.members()) || !eq(observe(bc), c.members()):
						bad = "an algebra operation modified its operand"
					}
					if bad == "" {
						// results are NEW sets: with distinct operands and with the same object on both sides,
						// changing the result leaves the operands alone and changing an operand leaves the result alone
						flip := func(x bm.Bit1024, idx int16, on bool) {
							if on {
								x.UnsetI16(idx)
							} else {
								x.SetI16(idx)
							}
						}
						for oi, other := range []bm.Bit1024{bc, ba} {
							wantOther := c.members()
							if oi == 1 {
								wantOther = a.members()
							}
							for _, opn := range []string{"And", "Or", "OrThenReverse", "Reverse"} {
								var res bm.Bit1024
								switch opn {
								case "And":
									res = ba.And(other)
								case "Or":
									res = ba.Or(other)
								case "OrThenReverse":
									res = ba.OrThenReverse(other)
								default:
									res = ba.Reverse()
								}
								before := observe(res)
								var m set1024
								for _, v := range before {
									m[v] = true
								}
								flip(res, 5, m[5])
								flip(res, 700, m[700])
								if !eq(observe(ba), a.members()) || !eq(observe(other), wantOther) {
									bad = fmt.Sprintf("changing the result of %s (same object on both sides: %v) changed an operand", opn, oi == 1)
								}
								flip(res, 5, !m[5])
								flip(res, 700, !m[700])
								flip(ba, 9, a[9])
								if bad == "" && !eq(observe(res), before) {
									bad = fmt.Sprintf("changing the receiver after %s (same object on both sides: %v) changed the result", opn, oi == 1)
								}
								flip(ba, 9, !a[9])
								if bad != "" {
									break
								}
							}
							if bad != "" {
								break
							}
						}
					}
					if bad != "" {
						r.Violate(ev.Violation{Signature: "bit1024: " + bad, Scenario: "bit1024/algebra", What: fmt.Sprintf("%s for a=%v… c=%v…", bad, head(a.members()), head(c.members())), Replay: map[string]interface{}{"a": a.members(), "c": c.members()}})
					}
				}
			}
			mu.Lock()
			pairs += k
			mu.Unlock()
		})
	}
	seq.Parallel(16, jobs)
	r.AddPart(ev.Part{Name: "bit1024/algebra", Evaluations: pairs, States: int64(len(sub)), Transitions: pairs * 5, Outcomes: 2, Exhaustive: true, Blocked: true, Bound: fmt.Sprintf("all ordered pairs of %d bitmaps", len(sub))})
}

func main() {
	r := ev.Start("C08")
	r.Rule("structured exhaustive families: 64-bit words (popcount<=2, >=62, all intervals, every 16-bit lane pattern and complement) through all 10 iterators and 8 GetN forms with n in {-1,0,1,2,l-1,l,l+1,64,65, MaxInt32, MaxInt-3..MaxInt, MinInt, MinInt+1, -2}, two (pos,add) settings, and sparse thresholds popcount-1/popcount/popcount+1/9 so that both traversal branches run on every word; 1024-bit bitmaps (subsets of a 12-index boundary alphabet, complements, per-word class vectors) through 8 iterators and 6 GetN forms under thresholds 0/2/9/64; Set/Unset over int16/int32 indices; And/Or/Reverse/OrThenReverse/Equal on all pairs of a subfamily incl. the same object on both sides, results independent of their operands in both directions; model = boolean array; distinct = (iterator, branch/threshold, n<Len, verdict) classes")
	r.Assume("bit i of a Bit64 is 1<<i (the documented word layout); bitmaps are otherwise built with Set* and observed with GetNAsI16(1024)")
	if r.Want("bit64") {
		layer64(r)
	}
	if r.Want("bit1024") {
		layer1024(r)
	}
	if r.Want("algebra") {
		algebra(r)
	}
	r.Finish()
}
