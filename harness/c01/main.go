// C01: semap — per-key reader/writer exclusion, FIFO hand-off, no residue (engine S).
package main

import (
	"context"
	"fmt"
	"math"
	"strings"

	"github.com/pinealctx/neptune/syncx/semap"
	"github.com/pinealctx/neptune/zverif/vsync"

	"verifh/ev"
	"verifh/mc"
	"verifh/vctx"
)

type mkMap struct {
	name string
	mk   func(ratio int) semap.SemMapper
}

func maps() []mkMap {
	var o []mkMap
	o = append(o, mkMap{"SemMap", func(r int) semap.SemMapper { return semap.NewSemMap(semap.WithRwRatio(r)) }})
	for _, p := range []uint64{1, 2, 3} {
		p := p
		o = append(o, mkMap{fmt.Sprintf("WideSemMap/shards=%d", p), func(r int) semap.SemMapper { return semap.NewWideSemMap(semap.WithRwRatio(r), semap.WithPrime(p)) }})
		o = append(o, mkMap{fmt.Sprintf("WideXHashSemMap/shards=%d", p), func(r int) semap.SemMapper { return semap.NewWideXHashSemMap(semap.WithRwRatio(r), semap.WithPrime(p)) }})
	}
	return o
}

// call is one Acquire/hold/Release of a thread.
type call struct {
	write  bool
	key    interface{}
	ctx    int    // 0: background-like never cancelled; >0: index of a cancellable context
	holdOn string // "" = release after one Yield; otherwise the name of an event to wait for before releasing
	signal string // event raised right after entering
}

type world struct {
	m       semap.SemMapper
	ratio   int
	readers map[interface{}]int
	writers map[interface{}]int
	active  map[interface{}]int
	events  map[string]bool
	ctxs    map[int]*vctx.Ctx
	threads []*vsync.Thread
	acq     map[*vsync.Thread]interface{} // the key a thread is currently acquiring
	w       *mc.World
}

func (x *world) ctxOf(i int) context.Context {
	if i == 0 {
		return vctx.New()
	}
	return x.ctxs[i]
}

// waitingNow: harness threads parked inside an acquire with nothing to wake them yet.
func (x *world) waitingNow(self *vsync.Thread, key interface{}) []*vsync.Thread {
	var o []*vsync.Thread
	for _, t := range x.threads {
		if k, ok := x.acq[t]; !ok || k != key {
			continue
		}
		if t != self && t.ParkedAt(vsync.OpSelect) && x.w.S.IsBlocked(t) {
			o = append(o, t)
		}
	}
	return o
}

func (x *world) run(name string, c call) {
	w := x.w
	self := w.S.Cur()
	w.Touch()
	ahead := x.waitingNow(self, c.key)
	x.active[c.key]++
	x.acq[self] = c.key
	var h *semap.Weighted
	var err error
	ctx := x.ctxOf(c.ctx)
	if c.write {
		h, err = x.m.AcquireWrite(ctx, c.key)
	} else {
		h, err = x.m.AcquireRead(ctx, c.key)
	}
	w.Touch()
	delete(x.acq, self)
	if err != nil {
		if c.ctx == 0 || !x.ctxs[c.ctx].IsCanceled() {
			w.Failf("%s: acquire failed with %v although its context never ended", name, err)
		}
		x.active[c.key]--
		w.Obs("%s:err", name)
		return
	}
	// arrival order: nobody who was already queued when this call was issued may still be waiting
	for _, a := range ahead {
		if a.ParkedAt(vsync.OpSelect) && w.S.IsBlocked(a) {
			w.Failf("%s was admitted while %s, which was already queued when %s arrived, is still waiting (arrival order violated)", name, a.Name, name)
		}
	}
	if c.write {
		x.writers[c.key]++
	} else {
		x.readers[c.key]++
	}
	wr, rd := x.writers[c.key], x.readers[c.key]
	if wr > 1 || (wr == 1 && rd > 0) || rd > x.ratio {
		w.Failf("key %v is held by %d writer(s) and %d reader(s) at once (rwRatio %d) when %s entered", c.key, wr, rd, x.ratio, name)
	}
	w.Obs("%s:in(w%d,r%d)", name, wr, rd)
	if c.signal != "" {
		x.events[c.signal] = true
	}
	if c.holdOn != "" {
		vsync.BlockOn(func() bool {
			if c.holdOn == "both-late-readers-in" {
				return x.events["r1-in"] && x.events["r2-in"]
			}
			return x.events[c.holdOn]
		})
	} else {
		vsync.Yield()
	}
	w.Touch()
	if c.write {
		x.writers[c.key]--
		x.m.ReleaseWrite(c.key, h)
	} else {
		x.readers[c.key]--
		x.m.ReleaseRead(c.key, h)
	}
	w.Touch()
	x.active[c.key]--
}

type prog struct {
	name    string
	ratio   int
	threads [][]call
	cancels []int // contexts cancelled by an environment thread (one thread each)
	pb      [2]int
}

func scenario(mm mkMap, p prog) *mc.Scenario {
	keys := map[interface{}]bool{}
	for _, t := range p.threads {
		for _, c := range t {
			keys[c.key] = true
		}
	}
	return &mc.Scenario{
		Name: fmt.Sprintf("%s/ratio=%d/%s", mm.name, p.ratio, p.name),
		PB:   p.pb,
		Main: func(w *mc.World) {
			x := &world{m: mm.mk(p.ratio), ratio: p.ratio, readers: map[interface{}]int{}, writers: map[interface{}]int{}, active: map[interface{}]int{}, events: map[string]bool{}, ctxs: map[int]*vctx.Ctx{}, acq: map[*vsync.Thread]interface{}{}, w: w}
			w.Data["x"] = x
			for _, t := range p.threads {
				for _, c := range t {
					if c.ctx > 0 && x.ctxs[c.ctx] == nil {
						x.ctxs[c.ctx] = vctx.New()
					}
				}
			}
			for ti, calls := range p.threads {
				ti, calls := ti, calls
				nm := fmt.Sprintf("T%d", ti)
				t := w.Go(nm, func() {
					for ci, c := range calls {
						x.run(fmt.Sprintf("%s.%d%s(%v)", nm, ci, map[bool]string{true: "W", false: "R"}[c.write], c.key), c)
					}
				})
				t.Name = nm
				x.threads = append(x.threads, t)
			}
			for _, ci := range p.cancels {
				ci := ci
				w.Go(fmt.Sprintf("cancel%d", ci), func() { x.ctxs[ci].Cancel() })
			}
			w.Join()
			w.Touch()
			// no residue, no leaked tokens
			if n := semap.VerifEntries(x.m); n != 0 {
				w.Failf("every holder released and nobody waits, but the container still keeps %d entr(ies)", n)
			}
			for k := range keys {
				x.active[k]++
				h, err := x.m.AcquireWrite(vctx.Canceled(), k)
				if err != nil {
					w.Failf("after everything was released a write acquire on key %v does not succeed at once: tokens leaked", k)
					return
				}
				x.m.ReleaseWrite(k, h)
				x.active[k]--
			}
			if n := semap.VerifEntries(x.m); n != 0 {
				w.Failf("residue after the final probe: %d entr(ies)", n)
			}
		},
		Invariant: func(w *mc.World) error {
			xi, ok := w.Data["x"]
			if !ok {
				return nil
			}
			x := xi.(*world)
			for k, n := range x.active {
				if n == 0 {
					if _, _, present := semap.VerifKeyState(x.m, k); present {
						return fmt.Errorf("no caller holds or waits for key %v but the container keeps an entry for it", k)
					}
				}
			}
			return nil
		},
	}
}

func progs(k1, k2 interface{}) []prog {
	R := func(k interface{}) call { return call{key: k} }
	W := func(k interface{}) call { return call{key: k, write: true} }
	var ps []prog
	// ratios: small ones, and "unlimited readers" spelled as the largest ints (sums of tokens must not wrap)
	for _, ratio := range []int{1, 2, 3, math.MaxInt, math.MaxInt/2 + 1} {
		ps = append(ps,
			prog{name: "excl/R|R|W", ratio: ratio, threads: [][]call{{R(k1)}, {R(k1)}, {W(k1)}}, pb: [2]int{4, 6}},
			prog{name: "excl/W|W|R", ratio: ratio, threads: [][]call{{W(k1)}, {W(k1)}, {R(k1)}}, pb: [2]int{4, 6}},
			prog{name: "excl/RR|W", ratio: ratio, threads: [][]call{{R(k1), R(k1)}, {W(k1), R(k1)}}, pb: [2]int{4, 6}},
		)
	}
	ps = append(ps,
		prog{name: "excl/R|R|R|W", ratio: 2, threads: [][]call{{R(k1)}, {R(k1)}, {R(k1)}, {W(k1)}}, pb: [2]int{2, 3}},
		// fifo: a reader holds, a writer arrives, a second reader arrives: all placements come from the interleaving
		prog{name: "fifo/R-hold|W|R", ratio: 2, threads: [][]call{{R(k1)}, {W(k1)}, {R(k1)}}, pb: [2]int{4, 6}},
		prog{name: "fifo/R-hold|W|R|R", ratio: 3, threads: [][]call{{R(k1)}, {W(k1)}, {R(k1)}, {R(k1)}}, pb: [2]int{2, 3}},
		// cancel: the holder releases only after the late reader entered; the writer in between can only leave by cancellation
		prog{name: "cancel/holder|Wctx|R", ratio: 2, threads: [][]call{{{key: k1, holdOn: "late-reader-in"}}, {{key: k1, write: true, ctx: 1}}, {{key: k1, signal: "late-reader-in"}}}, cancels: []int{1}, pb: [2]int{4, 6}},
		prog{name: "cancel/holder|Wctx|Wctx", ratio: 2, threads: [][]call{{{key: k1, write: true}}, {{key: k1, write: true, ctx: 1}}, {{key: k1, write: true, ctx: 2}}}, cancels: []int{1, 2}, pb: [2]int{2, 3}},
		// the cancelled head leaves: EVERY waiter that now fits is admitted at once (two readers behind the writer)
		prog{name: "cancel/holder|Wctx|R|R", ratio: 3, threads: [][]call{{{key: k1, holdOn: "both-late-readers-in"}}, {{key: k1, write: true, ctx: 1}}, {{key: k1, signal: "r1-in", holdOn: "both-late-readers-in"}}, {{key: k1, signal: "r2-in", holdOn: "both-late-readers-in"}}}, cancels: []int{1}, pb: [2]int{1, 2}},
		// cancel racing the grant
		prog{name: "cancel-vs-grant/W|Wctx", ratio: 2, threads: [][]call{{W(k1)}, {{key: k1, write: true, ctx: 1}}}, cancels: []int{1}, pb: [2]int{4, 6}},
		prog{name: "cancel-vs-grant/R|Wctx|R", ratio: 2, threads: [][]call{{R(k1)}, {{key: k1, write: true, ctx: 1}}, {R(k1)}}, cancels: []int{1}, pb: [2]int{4, 6}},
		// two keys: holding one never blocks the other
		prog{name: "two-keys/W(k1)-holds-until-W(k2)-done", ratio: 2, threads: [][]call{{{key: k1, write: true, holdOn: "k2-in"}}, {{key: k2, write: true, signal: "k2-in"}}}, pb: [2]int{4, 6}},
		prog{name: "two-keys/mixed", ratio: 2, threads: [][]call{{W(k1), R(k2)}, {W(k2), R(k1)}, {R(k1)}}, pb: [2]int{4, 6}},
	)
	return ps
}

// observedRatio: how many try-acquires (already-ended context) of read tokens a fresh container admits on one key
func observedRatio(m semap.SemMapper, limit int) int {
	var hs []*semap.Weighted
	n := 0
	for n < limit {
		h, err := m.AcquireRead(vctx.Canceled(), "probe")
		if err != nil {
			break
		}
		hs = append(hs, h)
		n++
	}
	for _, h := range hs {
		m.ReleaseRead("probe", h)
	}
	return n
}

// constructors: every container gets the ratio IT was built with, whatever was built before it
// (options must not leak between instances); all ordered pairs and triples of constructions.
func constructorScenario() *mc.Scenario {
	type build struct {
		name  string
		ratio int // 0 = default
		mk    func() semap.SemMapper
	}
	var builds []build
	for _, r := range []int{0, 1, 2, 12} {
		r := r
		opt := func() []semap.Option {
			if r == 0 {
				return nil
			}
			return []semap.Option{semap.WithRwRatio(r)}
		}
		builds = append(builds,
			build{fmt.Sprintf("NewSemMap(ratio=%d)", r), r, func() semap.SemMapper { return semap.NewSemMap(opt()...) }},
			build{fmt.Sprintf("NewWideSemMap(ratio=%d,shards=2)", r), r, func() semap.SemMapper { return semap.NewWideSemMap(append(opt(), semap.WithPrime(2))...) }},
			build{fmt.Sprintf("NewWideXHashSemMap(ratio=%d)", r), r, func() semap.SemMapper { return semap.NewWideXHashSemMap(append(opt(), semap.WithPrime(3))...) }})
	}
	return &mc.Scenario{Name: "constructors/options-do-not-leak-between-containers", PB: [2]int{0, 0}, Horizon: 2000000, NoStateCache: true, ProcessState: true,
		Main: func(w *mc.World) {
			want := func(b build) int {
				if b.ratio == 0 {
					return semap.DefaultRWRatio
				}
				return b.ratio
			}
			n := 0
			for _, a := range builds {
				for _, b := range builds {
					ma, mb := a.mk(), b.mk()
					if got := observedRatio(mb, 40); got != want(b) {
						w.Failf("%s built after %s admits %d concurrent readers on one key, configured %d", b.name, a.name, got, want(b))
					}
					if got := observedRatio(ma, 40); got != want(a) {
						w.Failf("%s admits %d concurrent readers on one key after %s was built, configured %d", a.name, got, b.name, want(a))
					}
					n++
				}
			}
			w.Obs("pairs=%d", n)
		}}
}

// massScenario: a writer holds, n readers (n = rwRatio) queue behind it, the writer releases: ALL of them
// fit and must be admitted by that one release - every reader keeps its token until all n are inside,
// so a hand-off that stops early leaves the rest parked forever (deadlock).  One default schedule.
func massScenario(mm mkMap, n int) *mc.Scenario {
	return &mc.Scenario{Name: fmt.Sprintf("%s/ratio=%d/mass-admission/W-holds|%d-readers-queue", mm.name, n, n), PB: [2]int{0, 0}, FB: [2]int{-1, -1}, NoStateCache: true,
		Main: func(w *mc.World) {
			m := mm.mk(n)
			h, err := m.AcquireWrite(vctx.New(), 1)
			if err != nil {
				w.Failf("writer refused: %v", err)
			}
			inside := 0
			for i := 0; i < n; i++ {
				w.Go(fmt.Sprintf("reader%d", i), func() {
					rh, err := m.AcquireRead(vctx.New(), 1)
					if err != nil {
						w.Failf("reader refused: %v", err)
					}
					w.Touch()
					inside++
					vsync.BlockOn(func() bool { return inside == n })
					m.ReleaseRead(1, rh)
				})
			}
			// let every reader park behind the writer, then release once
			vsync.BlockOn(func() bool {
				parked := 0
				for _, t := range w.S.Threads() {
					if t != w.S.Threads()[0] && w.S.IsBlocked(t) {
						parked++
					}
				}
				return parked == n
			})
			m.ReleaseWrite(1, h)
			w.Join()
		}}
}

func scenarios() []*mc.Scenario {
	var scs []*mc.Scenario
	scs = append(scs, constructorScenario())
	for _, mm := range maps() {
		for _, n := range []int{3, 10, 11, 12, 33} {
			scs = append(scs, massScenario(mm, n))
		}
	}
	for _, mm := range maps() {
		// keys: integers for modulo routing (1 and 7 collide for 1,2,3 shards; 1 and 2 differ for 2 and 3 shards), strings for xxhash
		type kp struct{ a, b interface{} }
		kps := []kp{{1, 7}, {1, 2}}
		if strings.HasPrefix(mm.name, "WideXHash") {
			kps = []kp{{"a", "b"}, {"a", "c"}}
		}
		for i, k := range kps {
			for _, p := range progs(k.a, k.b) {
				if i == 1 && !strings.HasPrefix(p.name, "two-keys") {
					continue // the second key pair only matters for the two-key programs
				}
				if mm.name != "SemMap" && p.ratio == 3 && strings.HasPrefix(p.name, "excl") {
					continue // the sharded variants delegate per key: ratio 3 exclusion runs on the single map only
				}
				pp := p
				pp.name = fmt.Sprintf("%s/keys=%v,%v", p.name, k.a, k.b)
				scs = append(scs, scenario(mm, pp))
				if mm.name == "SemMap" && i == 0 && p.ratio == 2 && len(p.threads) <= 3 {
					// statement-level interleavings inside the semaphore code (lock misuse)
					fp := pp
					fp.name += "/fine"
					fp.pb = [2]int{1, 2}
					sc := scenario(mm, fp)
					sc.Fine = true
					scs = append(scs, sc)
				}
			}
		}
	}
	return scs
}

func main() {
	r := ev.Start("C01")
	r.Rule("every interleaving (at each mutex / select / channel point, every select resolution, up to the stated preemption bound) of 2-4 callers doing AcquireRead/AcquireWrite - hold - Release, plus environment threads cancelling contexts, on the real SemMap / WideSemMap / WideXHashSemMap for rwRatio 1,2,3, MaxInt/2+1, MaxInt and 1,2,3 shards; oracles: per-key holder counters at every entry, arrival-order (a call issued after another was observed queued must not be admitted while that one still waits), failed acquire never enters, deadlock = lost hand-off, entry residue at every scheduling decision and at the end, leaked-token probe; mass admission (a writer releases with 3..33 = rwRatio readers queued: one release admits them all); distinct = (status, who entered with which holder counts) signatures")
	r.Assume("vsync model of sync.Mutex, close-broadcast channels and select", "scenario bodies are data-race free")
	mc.Main(r, scenarios())
}
