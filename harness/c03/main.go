// C03: B-tree — ordered-set equivalence, bounded range scans, balance, clone isolation (engine H).
package main

import (
	"fmt"
	"os"
	"sort"
	"strings"

	"github.com/pinealctx/neptune/ds/tree"
	"github.com/pinealctx/neptune/ds/tree/btree"

	"verifh/ev"
	"verifh/mc"
	"verifh/seq"
)

type item struct{ k, ver int }

func (a *item) Less(b btree.Item) bool { return a.k < b.(*item).k }
func (a *item) String() string         { return fmt.Sprintf("%d.%d", a.k, a.ver) }

func show(i btree.Item) string { return fmt.Sprint(i.(*item).k) }

func istr(i btree.Item) string {
	if i == nil {
		return "nil"
	}
	return i.(*item).String()
}

// model: sorted slice of items
type model struct{ its []*item }

func (m *model) find(k int) int {
	return sort.Search(len(m.its), func(i int) bool { return m.its[i].k >= k })
}
func (m *model) has(k int) bool { i := m.find(k); return i < len(m.its) && m.its[i].k == k }
func (m *model) get(k int) *item {
	if i := m.find(k); i < len(m.its) && m.its[i].k == k {
		return m.its[i]
	}
	return nil
}
func (m *model) put(it *item) *item {
	i := m.find(it.k)
	if i < len(m.its) && m.its[i].k == it.k {
		old := m.its[i]
		m.its[i] = it
		return old
	}
	m.its = append(m.its, nil)
	copy(m.its[i+1:], m.its[i:])
	m.its[i] = it
	return nil
}
func (m *model) del(k int) *item {
	i := m.find(k)
	if i < len(m.its) && m.its[i].k == k {
		old := m.its[i]
		m.its = append(m.its[:i:i], m.its[i+1:]...)
		return old
	}
	return nil
}
func (m *model) clone() *model { return &model{append([]*item(nil), m.its...)} }

func pstr(it *item) string {
	if it == nil {
		return "nil"
	}
	return it.String()
}

func list(its []*item) string {
	var s []string
	for _, i := range its {
		s = append(s, i.String())
	}
	return strings.Join(s, ",")
}

// expected scan: items with lo<=k (loIncl) / k<=hi ... in the given direction
func (m *model) scan(asc bool, lo *int, loIncl bool, hi *int, hiIncl bool) []*item {
	var o []*item
	for _, it := range m.its {
		if lo != nil && (it.k < *lo || (!loIncl && it.k == *lo)) {
			continue
		}
		if hi != nil && (it.k > *hi || (!hiIncl && it.k == *hi)) {
			continue
		}
		o = append(o, it)
	}
	if !asc {
		for i, j := 0, len(o)-1; i < j; i, j = i+1, j-1 {
			o[i], o[j] = o[j], o[i]
		}
	}
	return o
}

func piv(p *int) btree.Item {
	if p == nil {
		return nil
	}
	return &item{k: *p}
}

func collect(stop int, run func(it btree.ItemIterator)) []*item {
	var got []*item
	run(func(i btree.Item) bool {
		got = append(got, i.(*item))
		return stop < 0 || len(got) < stop
	})
	return got
}

func firstN(its []*item, n int) []*item {
	if n >= 0 && len(its) > n {
		return its[:n]
	}
	return its
}

// fullCheck compares everything observable of t with m.
func fullCheck(t *btree.BTree, m *model, maxKey int) string {
	if err := t.VerifCheck(); err != nil {
		return "structure: " + err.Error()
	}
	if t.Len() != len(m.its) {
		return fmt.Sprintf("Len()=%d, sorted set holds %d", t.Len(), len(m.its))
	}
	var wmin, wmax *item
	if len(m.its) > 0 {
		wmin, wmax = m.its[0], m.its[len(m.its)-1]
	}
	if istr(t.Min()) != pstr(wmin) || istr(t.Max()) != pstr(wmax) {
		return fmt.Sprintf("Min/Max = %s/%s, sorted set says %s/%s", istr(t.Min()), istr(t.Max()), pstr(wmin), pstr(wmax))
	}
	for k := -1; k <= maxKey+1; k++ {
		if istr(t.Get(&item{k: k})) != pstr(m.get(k)) || t.Has(&item{k: k}) != m.has(k) {
			return fmt.Sprintf("Get/Has(%d) = %s/%v, sorted set says %s/%v", k, istr(t.Get(&item{k: k})), t.Has(&item{k: k}), pstr(m.get(k)), m.has(k))
		}
	}
	var pivots []*int
	pivots = append(pivots, nil)
	for k := -1; k <= maxKey+1; k++ {
		k := k
		pivots = append(pivots, &k)
	}
	cmp := func(name string, got, want []*item, stop int) string {
		if stop == 0 {
			want = firstN(want, 1) // the iterator sees one item before it can say stop
		} else {
			want = firstN(want, stop)
		}
		if list(got) != list(want) {
			return fmt.Sprintf("%s (stop after %d) visited [%s], sorted set says [%s]", name, stop, list(got), list(want))
		}
		return ""
	}
	pn := func(p *int) string {
		if p == nil {
			return "nil"
		}
		return fmt.Sprint(*p)
	}
	for _, stop := range []int{-1, 0, 1, 2} {
		if s := cmp("Ascend", collect(stop, t.Ascend), m.scan(true, nil, false, nil, false), stop); s != "" {
			return s
		}
		if s := cmp("Descend", collect(stop, t.Descend), m.scan(false, nil, false, nil, false), stop); s != "" {
			return s
		}
		for _, p := range pivots {
			p := p
			type sc struct {
				name string
				run  func(btree.ItemIterator)
				want []*item
			}
			scans := []sc{
				{"AscendGreaterOrEqual(" + pn(p) + ")", func(it btree.ItemIterator) { t.AscendGreaterOrEqual(piv(p), it) }, m.scan(true, p, true, nil, false)},
				{"AscendGreater(" + pn(p) + ")", func(it btree.ItemIterator) { t.AscendGreater(piv(p), it) }, m.scan(true, p, false, nil, false)},
				{"AscendLessThan(" + pn(p) + ")", func(it btree.ItemIterator) { t.AscendLessThan(piv(p), it) }, m.scan(true, nil, false, p, false)},
				{"DescendLessOrEqual(" + pn(p) + ")", func(it btree.ItemIterator) { t.DescendLessOrEqual(piv(p), it) }, m.scan(false, nil, false, p, true)},
				{"DescendLess(" + pn(p) + ")", func(it btree.ItemIterator) { t.DescendLess(piv(p), it) }, m.scan(false, nil, false, p, false)},
				{"DescendGreaterThan(" + pn(p) + ")", func(it btree.ItemIterator) { t.DescendGreaterThan(piv(p), it) }, m.scan(false, p, false, nil, false)},
			}
			for _, s := range scans {
				if e := cmp(s.name, collect(stop, s.run), s.want, stop); e != "" {
					return e
				}
			}
			if stop == -1 || stop == 1 {
				for _, q := range pivots {
					q := q
					if p != nil && q != nil && *p > *q {
						continue
					}
					if e := cmp(fmt.Sprintf("AscendRange(%s,%s)", pn(p), pn(q)), collect(stop, func(it btree.ItemIterator) { t.AscendRange(piv(p), piv(q), it) }), m.scan(true, p, true, q, false), stop); e != "" {
						return e
					}
					if e := cmp(fmt.Sprintf("DescendRange(%s,%s)", pn(q), pn(p)), collect(stop, func(it btree.ItemIterator) { t.DescendRange(piv(q), piv(p), it) }), m.scan(false, p, false, q, true), stop); e != "" {
						return e
					}
				}
			}
		}
	}
	return ""
}

// lightCheck: structure, length and the full ascending content (with item versions).
func lightCheck(t *btree.BTree, m *model) string {
	if err := t.VerifCheck(); err != nil {
		return "structure: " + err.Error()
	}
	if t.Len() != len(m.its) {
		return fmt.Sprintf("Len()=%d, sorted set holds %d", t.Len(), len(m.its))
	}
	if got := collect(-1, t.Ascend); list(got) != list(m.its) {
		return fmt.Sprintf("Ascend visited [%s], sorted set says [%s]", list(got), list(m.its))
	}
	return ""
}

// ---- inner tree ----

type inner struct {
	t    *btree.BTree
	m    *model
	ver  int
	maxK int
}

func innerOps(keys []int) []seq.Op[*inner] {
	var o []seq.Op[*inner]
	for _, k := range keys {
		k := k
		o = append(o, seq.Op[*inner]{Name: fmt.Sprintf("ReplaceOrInsert(%d)", k), Step: func(s *inner) (string, string) {
			s.ver++
			it := &item{k, s.ver}
			got, want := istr(s.t.ReplaceOrInsert(it)), pstr(s.m.put(it))
			if got != want {
				return got, fmt.Sprintf("ReplaceOrInsert(%d) returned %s, sorted set says %s", k, got, want)
			}
			return fmt.Sprint(got == "nil"), ""
		}})
		o = append(o, seq.Op[*inner]{Name: fmt.Sprintf("Delete(%d)", k), Step: func(s *inner) (string, string) {
			got, want := istr(s.t.Delete(&item{k: k})), pstr(s.m.del(k))
			if got != want {
				return got, fmt.Sprintf("Delete(%d) returned %s, sorted set says %s", k, got, want)
			}
			return fmt.Sprint(got == "nil"), ""
		}})
	}
	o = append(o, seq.Op[*inner]{Name: "DeleteMin", Step: func(s *inner) (string, string) {
		var want *item
		if len(s.m.its) > 0 {
			want = s.m.del(s.m.its[0].k)
		}
		got := istr(s.t.DeleteMin())
		if got != pstr(want) {
			return got, fmt.Sprintf("DeleteMin returned %s, sorted set says %s", got, pstr(want))
		}
		return fmt.Sprint(got == "nil"), ""
	}})
	o = append(o, seq.Op[*inner]{Name: "DeleteMax", Step: func(s *inner) (string, string) {
		var want *item
		if len(s.m.its) > 0 {
			want = s.m.del(s.m.its[len(s.m.its)-1].k)
		}
		got := istr(s.t.DeleteMax())
		if got != pstr(want) {
			return got, fmt.Sprintf("DeleteMax returned %s, sorted set says %s", got, pstr(want))
		}
		return fmt.Sprint(got == "nil"), ""
	}})
	o = append(o, seq.Op[*inner]{Name: "CloneAndSwitch", Step: func(s *inner) (string, string) {
		s.t = s.t.Clone()
		return "", ""
	}})
	return o
}

// ---- clone isolation: two trees ----

type pair struct {
	a, b   *btree.BTree
	ma, mb *model
	ver    int
}

func pairOps(keys []int) []seq.Op[*pair] {
	var o []seq.Op[*pair]
	for _, side := range []string{"orig", "clone"} {
		side := side
		pick := func(s *pair) (*btree.BTree, *model) {
			if side == "orig" {
				return s.a, s.ma
			}
			return s.b, s.mb
		}
		for _, k := range keys {
			k := k
			o = append(o, seq.Op[*pair]{Name: fmt.Sprintf("%s.ReplaceOrInsert(%d)", side, k), Step: func(s *pair) (string, string) {
				t, m := pick(s)
				s.ver++
				it := &item{k, s.ver}
				got, want := istr(t.ReplaceOrInsert(it)), pstr(m.put(it))
				if got != want {
					return got, fmt.Sprintf("%s.ReplaceOrInsert(%d) returned %s, want %s", side, k, got, want)
				}
				return "", ""
			}})
			o = append(o, seq.Op[*pair]{Name: fmt.Sprintf("%s.Delete(%d)", side, k), Step: func(s *pair) (string, string) {
				t, m := pick(s)
				got, want := istr(t.Delete(&item{k: k})), pstr(m.del(k))
				if got != want {
					return got, fmt.Sprintf("%s.Delete(%d) returned %s, want %s", side, k, got, want)
				}
				return "", ""
			}})
		}
		for _, addToFree := range []bool{true, false} {
			addToFree := addToFree
			o = append(o, seq.Op[*pair]{Name: fmt.Sprintf("%s.Clear(%v)", side, addToFree), Step: func(s *pair) (string, string) {
				t, m := pick(s)
				t.Clear(addToFree)
				m.its = nil
				return "", ""
			}})
		}
		o = append(o, seq.Op[*pair]{Name: side + ".DeleteMin", Step: func(s *pair) (string, string) {
			t, m := pick(s)
			var want *item
			if len(m.its) > 0 {
				want = m.del(m.its[0].k)
			}
			if got := istr(t.DeleteMin()); got != pstr(want) {
				return got, fmt.Sprintf("%s.DeleteMin returned %s, want %s", side, got, pstr(want))
			}
			return "", ""
		}})
	}
	o = append(o, seq.Op[*pair]{Name: "clone := orig.Clone()", Step: func(s *pair) (string, string) {
		s.b = s.a.Clone()
		s.mb = s.ma.clone()
		return "", ""
	}})
	o = append(o, seq.Op[*pair]{Name: "orig, clone = clone.Clone(), orig", Step: func(s *pair) (string, string) {
		s.a, s.b = s.b.Clone(), s.a
		s.ma, s.mb = s.mb.clone(), s.ma
		return "", ""
	}})
	return o
}

// ---- locked wrapper ----

type wrap struct {
	t   *tree.BTree
	m   *model
	ver int
}

func wrapOps(keys []int) []seq.Op[*wrap] {
	var o []seq.Op[*wrap]
	for _, k := range keys {
		k := k
		o = append(o, seq.Op[*wrap]{Name: fmt.Sprintf("Insert(%d)", k), Step: func(s *wrap) (string, string) {
			s.ver++
			it := &item{k, s.ver}
			s.t.Insert(it)
			s.m.put(it)
			return "", ""
		}})
		o = append(o, seq.Op[*wrap]{Name: fmt.Sprintf("Delete(%d)", k), Step: func(s *wrap) (string, string) {
			got, want := s.t.Delete(&item{k: k}), s.m.del(k) != nil
			if got != want {
				return fmt.Sprint(got), fmt.Sprintf("Delete(%d) returned %v, sorted set says %v", k, got, want)
			}
			return fmt.Sprint(got), ""
		}})
		for _, k2 := range keys {
			k2 := k2
			o = append(o, seq.Op[*wrap]{Name: fmt.Sprintf("Update(%d->%d)", k, k2), Step: func(s *wrap) (string, string) {
				s.ver++
				it := &item{k2, s.ver}
				got := s.t.Update(&item{k: k}, it)
				want := s.m.del(k) != nil
				if want {
					s.m.put(it)
				}
				if got != want {
					return fmt.Sprint(got), fmt.Sprintf("Update(%d->%d) returned %v, sorted set says %v", k, k2, got, want)
				}
				return fmt.Sprint(got), ""
			}})
			o = append(o, seq.Op[*wrap]{Name: fmt.Sprintf("UpdateOrInsert(%d->%d)", k, k2), Step: func(s *wrap) (string, string) {
				s.ver++
				it := &item{k2, s.ver}
				got := s.t.UpdateOrInsert(&item{k: k}, it)
				want := s.m.del(k) != nil
				s.m.put(it)
				if got != want {
					return fmt.Sprint(got), fmt.Sprintf("UpdateOrInsert(%d->%d) returned %v, sorted set says %v", k, k2, got, want)
				}
				return fmt.Sprint(got), ""
			}})
		}
	}
	return o
}

func nodes(ns []tree.Node) string {
	var s []string
	for _, n := range ns {
		s = append(s, n.(*item).String())
	}
	return strings.Join(s, ",")
}

func wrapCheck(s *wrap, maxKey int) string {
	if err := s.t.VerifInner().VerifCheck(); err != nil {
		return "structure: " + err.Error()
	}
	if s.t.VerifInner().Len() != len(s.m.its) {
		return fmt.Sprintf("length %d, sorted set holds %d", s.t.VerifInner().Len(), len(s.m.its))
	}
	for k := -1; k <= maxKey+1; k++ {
		var g string
		if n := s.t.Get(&item{k: k}); n == nil {
			g = "nil"
		} else {
			g = n.(*item).String()
		}
		if g != pstr(s.m.get(k)) {
			return fmt.Sprintf("Get(%d) = %s, sorted set says %s", k, g, pstr(s.m.get(k)))
		}
	}
	filters := []struct {
		name string
		f    func(n tree.Node) bool
	}{{"all", func(tree.Node) bool { return true }}, {"even", func(n tree.Node) bool { return n.(*item).k%2 == 0 }}, {"none", func(tree.Node) bool { return false }}, {"odd-version", func(n tree.Node) bool { return n.(*item).ver%2 == 1 }}}
	l := len(s.m.its)
	for k := -1; k <= maxKey+1; k++ {
		k := k
		for _, fl := range filters {
			for _, n := range []int{0, 1, 2, l, l + 1} {
				type sc struct {
					name string
					got  []tree.Node
					base []*item
				}
				scans := []sc{
					{"AscendGte", s.t.AscendGte(&item{k: k}, fl.f, n), s.m.scan(true, &k, true, nil, false)},
					{"AscendGt", s.t.AscendGt(&item{k: k}, fl.f, n), s.m.scan(true, &k, false, nil, false)},
					{"DescendLte", s.t.DescendLte(&item{k: k}, fl.f, n), s.m.scan(false, nil, false, &k, true)},
					{"DescendLt", s.t.DescendLt(&item{k: k}, fl.f, n), s.m.scan(false, nil, false, &k, false)},
				}
				for _, c := range scans {
					var want []*item
					for _, it := range c.base {
						if len(want) < n && fl.f(it) {
							want = append(want, it)
						}
					}
					if nodes(c.got) != list(want) {
						return fmt.Sprintf("%s(pivot %d, filter %s, n=%d) = [%s], first n matching items of the sorted set are [%s]", c.name, k, fl.name, n, nodes(c.got), list(want))
					}
				}
			}
		}
	}
	return ""
}

func sigOf(path []string, msg string) string {
	// class: operation kind + kind of disagreement (before the first '(' or digit run)
	op := path[len(path)-1]
	if i := strings.IndexAny(op, "(0123456789"); i > 0 {
		op = op[:i]
	}
	m := msg
	if i := strings.IndexAny(m, "(0123456789["); i > 0 {
		m = m[:i]
	}
	return op + ": " + strings.TrimSpace(m)
}

func main() {
	r := ev.Start("C03")
	r.Rule("breadth-first over all operation sequences on the real trees with states merged on the tree's canonical shape (pre-order dump of node item lists): inner btree for degrees 2,3,4 over 8 keys (ReplaceOrInsert/Delete per key, DeleteMin, DeleteMax, Clone-and-switch); after EVERY transition the structural invariants, Len/Min/Max/Get/Has and ALL scans (Ascend*, Descend*, the added AscendGreater/DescendLess, ranges) from EVERY pivot in {nil,-1..maxKey+1} with early stop after 0/1/2/all items are compared with a sorted slice; two-tree clone programs (writes to either side, re-clone, swap) against two independent models; the locked wrapper (Insert/Update/UpdateOrInsert/Delete over 5 keys, scans x pivots x 4 filters x n in {0,1,2,len,len+1}); distinct = (op, result) pairs")
	r.Assume("merging two histories that reach the same node shape is exact: the shape is the tree's whole state apart from item versions, which are compared against the model on every path")
	keys8 := []int{0, 2, 4, 6, 8, 10, 12, 14}
	keys11 := []int{0, 2, 4, 6, 8, 10, 12, 14, 16, 18, 20}
	var jobs []func()
	for _, deg := range []int{2, 3, 4} {
		deg := deg
		jobs = append(jobs, func() {
			d := r.Pick(12, 40)
			if deg > 2 {
				d = r.Pick(11, 16)
			}
			ks, mk := keys8, 14
			if !r.Quick() && deg == 2 {
				ks, mk = keys11, 20
			}
			seq.Explore(r, &seq.Spec[*inner]{Name: fmt.Sprintf("btree/degree=%d/keys=%d", deg, len(ks)), Ops: innerOps(ks), Depth: d, Sig: sigOf,
				New:   func() *inner { return &inner{t: btree.New(deg), m: &model{}, maxK: mk} },
				Key:   func(s *inner) string { return s.t.VerifShape(show) },
				After: func(s *inner) string { return lightCheck(s.t, s.m) },
				OnNew: func(s *inner) string { return fullCheck(s.t, s.m, mk) }})
		})
	}
	keys4 := []int{0, 2, 4, 6, 8}
	jobs = append(jobs, func() {
		seq.Explore(r, &seq.Spec[*pair]{Name: "btree/clone-isolation/degree=2", Ops: pairOps(keys4), Depth: r.Pick(8, 12), Sig: sigOf,
			New: func() *pair {
				a := btree.New(2)
				return &pair{a: a, b: a.Clone(), ma: &model{}, mb: &model{}}
			},
			Key: func(s *pair) string { return s.a.VerifShape(show) + "|" + s.b.VerifShape(show) },
			After: func(s *pair) string {
				if e := lightCheck(s.a, s.ma); e != "" {
					return "original tree: " + e
				}
				if e := lightCheck(s.b, s.mb); e != "" {
					return "cloned tree: " + e
				}
				return ""
			},
			OnNew: func(s *pair) string {
				if e := fullCheck(s.a, s.ma, 8); e != "" {
					return "original tree: " + e
				}
				if e := fullCheck(s.b, s.mb, 8); e != "" {
					return "cloned tree: " + e
				}
				return ""
			}})
	})
	// the same alphabet over two keys WITHOUT merging states: what a clone shares with its origin (and
	// any bookkeeping about it) is not visible in the node shapes, so here every sequence is kept -
	// refused calls and repeated clones between two writes included
	for _, deg := range []int{2, 3} {
		deg := deg
		if deg == 3 && r.Quick() {
			continue
		}
		jobs = append(jobs, func() {
			seq.Explore(r, &seq.Spec[*pair]{Name: fmt.Sprintf("btree/clone-isolation/unmerged/degree=%d", deg), Ops: pairOps([]int{0, 2}), Depth: r.Pick(5, 6), Sig: sigOf,
				New: func() *pair {
					a := btree.New(deg)
					return &pair{a: a, b: a.Clone(), ma: &model{}, mb: &model{}}
				},
				After: func(s *pair) string {
					if e := lightCheck(s.a, s.ma); e != "" {
						return "original tree: " + e
					}
					if e := lightCheck(s.b, s.mb); e != "" {
						return "cloned tree: " + e
					}
					return ""
				}})
		})
	}
	wkeys := []int{0, 1, 2, 3, 4}
	jobs = append(jobs, func() {
		seq.Explore(r, &seq.Spec[*wrap]{Name: "tree.BTree(wrapper)", Ops: wrapOps(wkeys), Depth: r.Pick(8, 14), Sig: sigOf,
			New:   func() *wrap { return &wrap{t: tree.NewBTree(), m: &model{}} },
			Key:   func(s *wrap) string { return s.t.VerifInner().VerifShape(show) },
			After: func(s *wrap) string { return lightCheck(s.t.VerifInner(), s.m) },
			OnNew: func(s *wrap) string { return wrapCheck(s, 4) }})
	})
	seq.Parallel(8, jobs)
	if r.Only == "" {
		if nd := mc.DriveBin(r, os.Getenv("VERIF_SCHED_BIN")); nd != "" && r.NViolations() == 0 {
			fmt.Println("engine-S companion failed (machinery error, not a verdict):", nd)
			r.Finish0(2)
		}
	}
	r.Finish()
}
