// C09: bitmap1024 serialization and block-integer mapping round-trip (engine I).
package main

import (
	"encoding/binary"
	"fmt"
	"math"

	bm "github.com/pinealctx/neptune/bitmap1024"

	"verifh/ev"
	"verifh/seq"
)

func observe(b bm.Bit1024) []int {
	var o []int
	for _, v := range b.GetNAsI16(1024) {
		o = append(o, int(v))
	}
	return o
}

func build(mem []int) bm.Bit1024 {
	b := bm.NewBit1024()
	for _, m := range mem {
		b.SetI16(int16(m))
	}
	return b
}

func eqInts(a, b []int) bool {
	if len(a) != len(b) {
		return false
	}
	for i := range a {
		if a[i] != b[i] {
			return false
		}
	}
	return true
}

func head(m []int) []int {
	if len(m) > 8 {
		return m[:8]
	}
	return m
}

func guard(f func()) (pan string) {
	defer func() {
		if r := recover(); r != nil {
			pan = fmt.Sprint(r)
		}
	}()
	f()
	return ""
}

func sortedUnique(m []int) []int {
	var seen [1024]bool
	for _, v := range m {
		seen[v] = true
	}
	var o []int
	for i, v := range seen {
		if v {
			o = append(o, i)
		}
	}
	return o
}

func marshalFamily(c *seq.Ctx) {
	var sets [][]int
	for _, n := range []int{0, 1, 2, 3, 16, 62, 63, 64, 65, 66, 127, 128, 512, 1023, 1024} {
		var low, high, strided []int
		for i := 0; i < n; i++ {
			low = append(low, i)
			high = append(high, 1023-i)
			strided = append(strided, (i*1024/max(n, 1)+i%3)%1024)
		}
		sets = append(sets, sortedUnique(low), sortedUnique(high), sortedUnique(strided))
		if n <= 16 {
			var perWord []int
			for i := 0; i < n; i++ {
				perWord = append(perWord, i*64+(i*5)%64)
			}
			sets = append(sets, sortedUnique(perWord))
		}
		// exactly n members across word boundaries 63/64
		var mid []int
		for i := 0; i < n && 40+i < 1024; i++ {
			mid = append(mid, 40+i)
		}
		sets = append(sets, sortedUnique(mid))
	}
	// every run of consecutive indices [a, a+len) for every start a and lengths on both sides of the
	// iterator's sparse/dense word threshold (9/10), half words, whole words and the 63/64 switch;
	// and every stride-2 / stride-3 comb of those lengths (members spread over 2-3 times the span)
	for _, ln := range []int{1, 2, 8, 9, 10, 11, 16, 31, 32, 33, 62, 63, 64, 65} {
		for a := 0; a+ln <= 1024; a++ {
			run := make([]int, ln)
			for i := range run {
				run[i] = a + i
			}
			sets = append(sets, run)
		}
		for _, stride := range []int{2, 3} {
			for a := 0; a+(ln-1)*stride < 1024; a += 1 + a%5 {
				comb := make([]int, ln)
				for i := range comb {
					comb[i] = a + i*stride
				}
				sets = append(sets, comb)
			}
		}
	}
	alpha := []int{0, 1, 63, 64, 65, 127, 128, 511, 512, 960, 1022, 1023}
	for mask := 0; mask < 1<<12; mask++ {
		var s []int
		for k, idx := range alpha {
			if mask>>uint(k)&1 == 1 {
				s = append(s, idx)
			}
		}
		sets = append(sets, s)
		// complement (dense encoding, >= 1012 members)
		var in [1024]bool
		for _, v := range s {
			in[v] = true
		}
		var cs []int
		for i := 0; i < 1024; i++ {
			if !in[i] {
				cs = append(cs, i)
			}
		}
		if mask%8 == 0 {
			sets = append(sets, cs)
		}
	}
	for _, mem := range sets {
		b := build(mem)
		var buf []byte
		var fresh bm.Bit1024
		var err error
		pan := guard(func() {
			buf = b.Marshal()
			fresh = bm.NewBit1024()
			err = fresh.Unmarshal(buf)
		})
		n := len(mem)
		wantLen := 128
		enc := "dense"
		if n == 0 {
			wantLen = 0
			enc = "empty"
		} else if n < 64 {
			wantLen = 2 * n
			enc = "sparse"
		}
		bad, sig := "", ""
		switch {
		case pan != "":
			bad, sig = fmt.Sprintf("Marshal/Unmarshal of %d members %v… panicked: %s", n, head(mem), pan), "Marshal/Unmarshal panics"
		case err != nil:
			bad, sig = fmt.Sprintf("Unmarshal(Marshal(b)) failed for %d members %v…: %v", n, head(mem), err), "Unmarshal rejects Marshal output ("+enc+")"
		case !fresh.Equal(b) || !eqInts(observe(fresh), mem):
			bad, sig = fmt.Sprintf("Unmarshal(Marshal(b)) != b for %d members %v…: got %d members %v…", n, head(mem), len(observe(fresh)), head(observe(fresh))), "Marshal/Unmarshal round trip loses the bitmap ("+enc+")"
		case len(buf) != wantLen:
			bad, sig = fmt.Sprintf("Marshal of %d members gave %d bytes, want %d (%s encoding)", n, len(buf), wantLen, enc), "Marshal picks the wrong encoding size ("+enc+")"
		}
		c.Case("marshal/"+enc, bad, sig, func() interface{} { return map[string]interface{}{"members": n, "first": head(mem)} })
	}
}

// denoted: the set a byte string denotes (ok=false: it denotes none)
func denoted(buf []byte) ([]int, bool) {
	n := len(buf)
	if n == 0 {
		return nil, true
	}
	if n > 128 || n%2 != 0 {
		return nil, false
	}
	if n < 128 {
		var m []int
		for i := 0; i < n; i += 2 {
			v := int(binary.LittleEndian.Uint16(buf[i:]))
			if v > 1023 {
				return nil, false
			}
			m = append(m, v)
		}
		return sortedUnique(m), true
	}
	var m []int
	for w := 0; w < 16; w++ {
		x := binary.LittleEndian.Uint64(buf[w*8:])
		for i := 0; i < 64; i++ {
			if x>>uint(i)&1 == 1 {
				m = append(m, w*64+i)
			}
		}
	}
	return m, true
}

func unmarshalOne(c *seq.Ctx, buf []byte) {
	b := bm.NewBit1024()
	var err error
	pan := guard(func() { err = b.Unmarshal(buf) })
	want, ok := denoted(buf)
	bad, sig, class := "", "", "err"
	switch {
	case pan != "":
		bad, sig = fmt.Sprintf("Unmarshal(% x) panicked: %s", buf, pan), "Unmarshal panics on arbitrary bytes"
	case err == nil && !ok:
		bad, sig = fmt.Sprintf("Unmarshal(% x) (len %d) succeeded although the bytes denote no bitmap; members %v…", trunc(buf), len(buf), head(observe(b))), "Unmarshal accepts bytes that denote no bitmap"
	case err == nil && !eqInts(observe(b), want):
		bad, sig = fmt.Sprintf("Unmarshal(% x) (len %d) = %v…, the bytes denote %v…", trunc(buf), len(buf), head(observe(b)), head(want)), "Unmarshal yields a set other than the one the bytes denote"
	case err != nil && ok:
		bad, sig = fmt.Sprintf("Unmarshal(% x) (len %d) failed with %v although the bytes denote %v…", trunc(buf), len(buf), err, head(want)), "Unmarshal rejects well-formed bytes"
	}
	if err == nil {
		class = "ok"
	}
	lc := "sparse"
	if len(buf) == 128 {
		lc = "dense"
	} else if len(buf) > 128 {
		lc = "long"
	} else if len(buf)%2 == 1 {
		lc = "odd"
	}
	c.Case("unmarshal/"+lc+"/"+class, bad, sig, func() interface{} { return fmt.Sprintf("% x", trunc(buf)) })
}

func trunc(b []byte) []byte {
	if len(b) > 12 {
		return b[:12]
	}
	return b
}

func unmarshalFamily(c *seq.Ctx) {
	unmarshalOne(c, nil)
	unmarshalOne(c, []byte{})
	for a := 0; a < 256; a++ {
		unmarshalOne(c, []byte{byte(a)})
		for b := 0; b < 256; b++ {
			unmarshalOne(c, []byte{byte(a), byte(b)})
		}
	}
	{
		// every 3-byte string, and every 4-byte string over a 16-byte alphabet
		for a := 0; a < 256; a++ {
			for b := 0; b < 256; b++ {
				for d := 0; d < 256; d++ {
					unmarshalOne(c, []byte{byte(a), byte(b), byte(d)})
				}
			}
			if c.Expired() {
				return
			}
		}
		al16 := []byte{0x00, 0x01, 0x02, 0x03, 0x04, 0x05, 0x3f, 0x40, 0x7f, 0x80, 0xfe, 0xff, 0x10, 0x20, 0xc0, 0xfd}
		for _, a := range al16 {
			for _, b := range al16 {
				for _, d := range al16 {
					for _, e := range al16 {
						unmarshalOne(c, []byte{a, b, d, e})
					}
				}
			}
		}
	}
	al := []byte{0x00, 0x01, 0x03, 0x04, 0x80, 0xff}
	for _, a := range al {
		for _, b := range al {
			for _, d := range al {
				unmarshalOne(c, []byte{a, b, d})
				for _, e := range al {
					unmarshalOne(c, []byte{a, b, d, e})
				}
			}
		}
	}
	for l := 5; l <= 130; l++ {
		zero := make([]byte, l)
		unmarshalOne(c, zero)
		ff := make([]byte, l)
		for i := range ff {
			ff[i] = 0xff
		}
		unmarshalOne(c, ff)
		asc := make([]byte, l)
		for i := 0; i+1 < l; i += 2 {
			binary.LittleEndian.PutUint16(asc[i:], uint16((i/2*17)%1024))
		}
		unmarshalOne(c, asc)
		// one invalid element at each position
		for p := 0; p+1 < l; p += 2 {
			for _, badv := range []uint16{1024, 0x8000, 0xffff} {
				x := append([]byte(nil), asc...)
				binary.LittleEndian.PutUint16(x[p:], badv)
				unmarshalOne(c, x)
			}
			x := append([]byte(nil), asc...)
			binary.LittleEndian.PutUint16(x[p:], 1023)
			unmarshalOne(c, x)
		}
		// duplicates
		dup := make([]byte, l)
		for i := 0; i+1 < l; i += 2 {
			binary.LittleEndian.PutUint16(dup[i:], 77)
		}
		unmarshalOne(c, dup)
	}
}

// ---------- block types ----------

func blocksI64(c *seq.Ctx) {
	ks := []int64{0, 1, 2, 1<<22 - 1, 1 << 22, 1<<22 + 1, 1 << 31, 1<<31 + 1, 1<<32 - 2, 12345, 1 << 30, 3 << 30}
	ms := []int64{0, 1, 63, 64, 1023}
	for _, k := range ks {
		for _, m := range ms {
			v := k*1024 + m
			if v >= math.MaxUint32*1024 {
				continue
			}
			b, err := bm.NewBigU32FromI64(v)
			bad, sig := "", ""
			if err != nil {
				bad, sig = fmt.Sprintf("NewBigU32FromI64(%d) failed: %v (value is inside the documented range)", v, err), "NewBigU32FromI64 rejects in-range value"
				c.Case("big/new", bad, sig, func() interface{} { return v })
				continue
			}
			check := func(name string, got []int64, want []int64) {
				if bad != "" {
					return
				}
				ok := len(got) == len(want)
				for i := 0; ok && i < len(want); i++ {
					ok = got[i] == want[i]
				}
				if !ok {
					bad = fmt.Sprintf("block built from %d (start %d): %s = %v, want %v", v, k, name, got, want)
					sig = "BigU32 " + name + " does not iterate back to the integers of the block"
					if k < 1<<22 {
						sig += " (start < 2^22)"
					} else {
						sig += " (start >= 2^22)"
					}
				}
			}
			check("GetNAsI64(1)", b.GetNAsI64(1), []int64{v})
			check("GetNAsI64(5)", b.GetNAsI64(5), []int64{v})
			check("RGetNAsI64(5)", b.RGetNAsI64(5), []int64{v})
			check("GetNAsI64(0)", b.GetNAsI64(0), nil)
			// membership acceptance: same block yes, other blocks no
			members := map[int64]bool{v: true}
			for _, d := range []int64{-1025, -1024, -1, 1, 2, 1022, 1023, 1024, 1025} {
				u := v + d
				inRange := u >= 0 && u < math.MaxUint32*1024
				sameBlock := inRange && u/1024 == k
				e := b.SetI64(u)
				if bad == "" && (e == nil) != sameBlock {
					bad = fmt.Sprintf("block of %d (start %d): SetI64(%d) err=%v, want accepted=%v", v, k, u, e, sameBlock)
					sig = "BigU32.SetI64 acceptance is not 'same block'"
				}
				if e == nil {
					members[u] = true
				}
			}
			outOfRange := []int64{-1, math.MinInt64, math.MaxInt64, math.MaxUint32 * 1024, math.MaxUint32*1024 + 5}
			// out-of-range values that alias a member of this block when the block number is truncated to
			// 32 bits (v + j*2^42) or the value to 32/48 bits
			for _, j := range []int64{1, 2, 3, 1 << 10, 1<<21 - 1} {
				if a := v + j<<42; a > 0 {
					outOfRange = append(outOfRange, a, a+1, a-1)
				}
			}
			outOfRange = append(outOfRange, v-(1<<42), v+1<<48, v|1<<62)
			for _, u := range outOfRange {
				if u >= 0 && u < math.MaxUint32*1024 {
					continue
				}
				if e := b.SetI64(u); bad == "" && e == nil {
					bad, sig = fmt.Sprintf("SetI64(%d) accepted an out-of-range value", u), "BigU32.SetI64 accepts out-of-range value"
				}
			}
			var asc []int64
			for u := k * 1024; u < k*1024+1024; u++ {
				if members[u] {
					asc = append(asc, u)
				}
			}
			desc := make([]int64, len(asc))
			for i := range asc {
				desc[i] = asc[len(asc)-1-i]
			}
			check("GetNAsI64(1024) after sets", b.GetNAsI64(1024), asc)
			check("RGetNAsI64(1024) after sets", b.RGetNAsI64(1024), desc)
			if len(asc) >= 2 {
				check("GetNAsI64(2) after sets", b.GetNAsI64(2), asc[:2])
				check("RGetNAsI64(2) after sets", b.RGetNAsI64(2), desc[:2])
			}
			// list forms
			b2, _ := bm.NewBigU32FromI64((k + 1) * 1024)
			if b2 != nil && (k+1)*1024 < math.MaxUint32*1024 {
				lst := bm.BigU32s{b, b2}
				check("BigU32s.GetNAsI64", lst.GetNAsI64(2048), append(append([]int64(nil), asc...), (k+1)*1024))
				check("BigU32s.GetNAsI64(1)", lst.GetNAsI64(1), asc[:1])
				got := lst.RGetNAsI64(2048)
				// per-block descending, concatenated in the order the list is visited
				if bad == "" && (len(got) != len(asc)+1) {
					bad, sig = fmt.Sprintf("BigU32s.RGetNAsI64 returned %d items want %d", len(got), len(asc)+1), "BigU32s.RGetNAsI64 loses or invents items"
				}
			}
			c.Case(fmt.Sprintf("big/%v", k >= 1<<22), bad, sig, func() interface{} { return map[string]int64{"value": v, "start": k} })
		}
	}
	for _, v := range []int64{-1, -1024, math.MinInt64, math.MaxInt64, math.MaxUint32 * 1024, math.MaxUint32*1024 + 1, 1 << 42, 1 << 62} {
		b, err := bm.NewBigU32FromI64(v)
		bad, sig := "", ""
		if err == nil {
			got := b.GetNAsI64(4)
			if len(got) != 1 || got[0] != v {
				bad, sig = fmt.Sprintf("NewBigU32FromI64(%d) (outside the documented range) succeeded and iterates to %v", v, got), "NewBigU32FromI64 accepts out-of-range value and mis-maps it"
			}
		}
		c.Case("big/out-of-range", bad, sig, func() interface{} { return v })
	}
}

func blocksU32(c *seq.Ctx) {
	starts := []uint32{0, 1, 2, 3, 1<<22 - 1 - 1, 1<<22 - 1}
	for e := uint(2); e < 22; e++ {
		starts = append(starts, 1<<e-1, 1<<e, 1<<e+1)
	}
	seenS := map[uint32]bool{}
	for _, s := range starts {
		if s > bm.MaxU32TipStart || seenS[s] {
			continue
		}
		seenS[s] = true
		for m := uint32(0); m < 1024; m++ {
			v64 := uint64(s)*1024 + uint64(m)
			if v64 > math.MaxUint32 {
				continue
			}
			v := uint32(v64)
			b := bm.NewU32BitTipFromU32(v)
			bad, sig := "", ""
			check := func(name string, got, want []uint32) {
				if bad != "" {
					return
				}
				ok := len(got) == len(want)
				for i := 0; ok && i < len(want); i++ {
					ok = got[i] == want[i]
				}
				if !ok {
					bad = fmt.Sprintf("tip built from %d (start %d): %s = %v, want %v", v, s, name, got, want)
					sig = "U32BitTip " + name + " wrong"
				}
			}
			check("GetNAsU32(3)", b.GetNAsU32(3), []uint32{v})
			check("RGetNAsU32(3)", b.RGetNAsU32(3), []uint32{v})
			// a second member decides direction
			var other uint32
			hasOther := false
			for _, d := range []int64{1, -1, 5, -5} {
				u := int64(v) + d
				if u >= 0 && u <= math.MaxUint32 && uint32(u)/1024 == s {
					other = uint32(u)
					hasOther = true
					break
				}
			}
			for _, d := range []int64{-1024, 1024, -1, 1} {
				u := int64(v) + d
				if u < 0 || u > math.MaxUint32 {
					continue
				}
				same := uint32(u)/1024 == s
				if m%97 != 0 && (d == -1 || d == 1) {
					continue
				}
				bb := bm.NewU32BitTipFromU32(v)
				if e := bb.SetU32(uint32(u)); bad == "" && (e == nil) != same {
					bad, sig = fmt.Sprintf("tip of %d: SetU32(%d) err=%v, want accepted=%v", v, u, e, same), "U32BitTip.SetU32 acceptance is not 'same block'"
				}
			}
			if hasOther {
				if e := b.SetU32(other); e != nil && bad == "" {
					bad, sig = fmt.Sprintf("tip of %d: SetU32(%d) in the same block refused: %v", v, other, e), "U32BitTip.SetU32 acceptance is not 'same block'"
				}
				lo, hi := v, other
				if lo > hi {
					lo, hi = hi, lo
				}
				check("GetNAsU32(2) forward ascending", b.GetNAsU32(2), []uint32{lo, hi})
				check("RGetNAsU32(2) reverse descending", b.RGetNAsU32(2), []uint32{hi, lo})
				check("GetNAsU32(1)", b.GetNAsU32(1), []uint32{lo})
				check("RGetNAsU32(1)", b.RGetNAsU32(1), []uint32{hi})
				s2 := make([]uint32, 4)
				if n := b.IterAsU32(s2, 1, 2); bad == "" && (n != 2 || s2[1] != lo || s2[2] != hi || s2[0] != 0 || s2[3] != 0) {
					bad, sig = fmt.Sprintf("tip of %d,%d: IterAsU32(pos 1) wrote %v count %d", v, other, s2, n), "U32BitTip IterAsU32 wrong"
				}
				s3 := make([]uint32, 4)
				if n := b.RIterAsU32(s3, 1, 2); bad == "" && (n != 2 || s3[1] != hi || s3[2] != lo || s3[0] != 0 || s3[3] != 0) {
					bad, sig = fmt.Sprintf("tip of %d,%d: RIterAsU32(pos 1) wrote %v count %d", v, other, s3, n), "U32BitTip RIterAsU32 wrong"
				}
				if s+1 <= bm.MaxU32TipStart && uint64(s+1)*1024 <= math.MaxUint32 && m%97 == 0 {
					nb := bm.NewU32BitTipFromU32((s + 1) * 1024)
					lst := bm.U32BitTips{b, nb}
					check("U32BitTips.GetNAsU32 ascending list", lst.GetNAsU32(10), []uint32{lo, hi, (s + 1) * 1024})
					check("U32BitTips.RGetNAsU32 descending", lst.RGetNAsU32(10), []uint32{(s + 1) * 1024, hi, lo})
					check("U32BitTips.GetNAsU32(2)", lst.GetNAsU32(2), []uint32{lo, hi})
				}
			}
			c.Case(fmt.Sprintf("tip/%v", hasOther), bad, sig, func() interface{} { return map[string]uint32{"value": v, "start": s} })
		}
	}
}

// bigLists: lists of 2-4 blocks whose member counts add up to both sides of 1024 and 2048 (the size of
// one block), read back with every n around the totals: exactly the first min(n, total) members.
func bigLists(c *seq.Ctx) {
	counts := [][]int{{1024, 1}, {1, 1024}, {600, 424, 1}, {600, 424}, {1023, 1}, {1024, 1024}, {1024, 1024, 1}, {512, 512, 512, 513}, {1, 1, 1, 1}, {1000, 24, 1}}
	for _, cs := range counts {
		total := 0
		var tips bm.U32BitTips
		var bigs bm.BigU32s
		var asc []uint32
		bad := ""
		for bi, n := range cs {
			start := uint32(7 + 3*bi) // ascending, non-adjacent blocks
			tip := bm.NewU32BitTipFromU32(start * 1024)
			big, err := bm.NewBigU32FromI64(int64(start) * 1024)
			if err != nil {
				bad = "NewBigU32FromI64: " + err.Error()
				break
			}
			for m := 0; m < n; m++ {
				off := uint32(m)
				if n < 1024 {
					off = uint32(m * 1023 / n) // spread over the block, strictly increasing for n <= 1024
					if m > 0 && off <= asc[len(asc)-1]-start*1024 {
						off = asc[len(asc)-1] - start*1024 + 1
					}
				}
				v := start*1024 + off
				if e := tip.SetU32(v); e != nil {
					bad = fmt.Sprintf("SetU32(%d): %v", v, e)
				}
				if e := big.SetI64(int64(v)); e != nil {
					bad = fmt.Sprintf("SetI64(%d): %v", v, e)
				}
				asc = append(asc, v)
			}
			tips = append(tips, tip)
			bigs = append(bigs, big)
			total += n
		}
		for _, n := range []int{0, 1, 1023, 1024, 1025, 2047, 2048, 2049, total - 1, total, total + 1, 5000} {
			if n < 0 || bad != "" {
				continue
			}
			want := n
			if want > total {
				want = total
			}
			f := tips.GetNAsU32(n)
			rv := tips.RGetNAsU32(n)
			bf := bigs.GetNAsI64(n)
			br := bigs.RGetNAsI64(n)
			switch {
			case len(f) != want || len(rv) != want || len(bf) != want || len(br) != want:
				bad = fmt.Sprintf("blocks with %v members (total %d), n=%d: U32BitTips.GetNAsU32 gave %d, RGetNAsU32 %d, BigU32s.GetNAsI64 %d, RGetNAsI64 %d items, want %d", cs, total, n, len(f), len(rv), len(bf), len(br), want)
			default:
				for i := 0; i < want; i++ {
					if f[i] != asc[i] || rv[i] != asc[total-1-i] || bf[i] != int64(asc[i]) {
						bad = fmt.Sprintf("blocks with %v members, n=%d: item %d is %d (forward) / %d (reverse) / %d (BigU32s), want %d / %d / %d", cs, n, i, f[i], rv[i], bf[i], asc[i], asc[total-1-i], asc[i])
						break
					}
				}
			}
		}
		c.Case(fmt.Sprintf("biglists/%v", bad == ""), bad, "a list of blocks does not iterate back to exactly the first min(n, total) members", func() interface{} { return cs })
	}
}

func main() {
	r := ev.Start("C09")
	r.Rule("Marshal->Unmarshal->Equal over member counts 0,1,2,3,16,62..66,127,128,512,1023,1024 in five placements, every run of 1..65 consecutive indices at every start and stride-2/3 combs, plus all subsets of a 12-index boundary alphabet (both encodings, the 63/64 switch); Unmarshal of all byte strings of length 0..2, length 3-4 over a 6-byte alphabet, and for every length 5..130 zero/ff/ascending/one-invalid-element-at-each-position/duplicate fills, against the denoted set; block types over boundary starts (incl. 2^22±1, 2^31, 2^32-2) and every in-block offset for the 32-bit tips; lists of 2-4 blocks with totals on both sides of 1024 and 2048 members read back with every n around the totals; distinct = outcome classes")
	r.Assume("a byte string denotes: empty set (len 0); LE u16 member list (even len < 128, every element <= 1023); 16 LE words (len 128); nothing otherwise")
	fams := []seq.Family{
		{Name: "marshal-roundtrip", Run: marshalFamily},
		{Name: "unmarshal-arbitrary", Run: unmarshalFamily},
		{Name: "bigu32-blocks", Run: blocksI64},
		{Name: "u32bittip-blocks", Run: blocksU32},
		{Name: "block-lists-around-1024-members", Run: bigLists},
	}
	var jobs []func()
	for _, f := range fams {
		f := f
		jobs = append(jobs, func() { seq.RunFamily(r, f) })
	}
	seq.Parallel(4, jobs)
	r.Finish()
}
