package mc

// Brute-force linearizability check for the handful of overlapping calls of one execution.

// LinModel is a cloneable sequential reference.
type LinModel interface{ Clone() LinModel }

// LinEvent is one completed call: Inv/Ret are logical timestamps taken by the harness when the call
// was issued and when it returned; Step applies the call to the model and reports whether the
// recorded result is what the model gives.
type LinEvent struct {
	Inv, Ret int
	Desc     string
	Step     func(m LinModel) bool
}

// Linearizable reports whether some total order of evs that respects real-time order (a call that
// returned before another was issued comes first) is explained step by step by the model, and, if
// final is given, ends in a model state final accepts.
func Linearizable(init LinModel, evs []LinEvent, final func(m LinModel) bool) bool {
	n := len(evs)
	used := make([]bool, n)
	var rec func(m LinModel, left int) bool
	rec = func(m LinModel, left int) bool {
		if left == 0 {
			return final == nil || final(m)
		}
		// minimal return time among the remaining calls: a call issued after it cannot go first
		minRet := 1 << 62
		for i := 0; i < n; i++ {
			if !used[i] && evs[i].Ret < minRet {
				minRet = evs[i].Ret
			}
		}
		for i := 0; i < n; i++ {
			if used[i] || evs[i].Inv > minRet {
				continue
			}
			c := m.Clone()
			if !evs[i].Step(c) {
				continue
			}
			used[i] = true
			if rec(c, left-1) {
				used[i] = false
				return true
			}
			used[i] = false
		}
		return false
	}
	return rec(init, n)
}

// Clock hands out the logical timestamps (callers must Touch the world in the same segment).
type Clock struct{ t int }

// Tick returns the next timestamp.
func (c *Clock) Tick() int { c.t++; return c.t }
