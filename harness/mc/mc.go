// Package mc is the stateless schedule explorer (engine S): depth-first enumeration of all choice
// sequences of a scenario under the vsync controlled scheduler, with iterated preemption and
// deviation bounds.
package mc

import (
	"bufio"
	"encoding/json"
	"fmt"
	"hash/fnv"
	"os"
	"os/exec"
	"runtime"
	"sort"
	"strings"
	"sync"
	"time"

	"github.com/pinealctx/neptune/zverif/vsync"

	"verifh/ev"
)

// World is the per-execution context handed to the scenario.
type World struct {
	S    *vsync.Sched
	obs  []string
	Data map[string]interface{}
	kids []*vsync.Thread
	hh   uint64
}

// Touch declares that the running thread reads or writes harness state shared between threads in the
// current atomic segment (between two schedule points).  The order of touches is part of the state
// fingerprint, so executions that order such segments differently are never merged.
func (w *World) Touch() { vsync.Touch(&w.hh) }

// Go starts a harness thread.
func (w *World) Go(name string, f func()) *vsync.Thread {
	t := w.S.Spawn(name, f)
	w.kids = append(w.kids, t)
	return t
}

// Obs appends an observation to the outcome signature of this execution.
func (w *World) Obs(format string, a ...interface{}) {
	w.Touch()
	w.obs = append(w.obs, fmt.Sprintf(format, a...))
}

// Failf raises an oracle failure and ends the execution.
func (w *World) Failf(format string, a ...interface{}) {
	w.Touch()
	w.S.Fail(fmt.Sprintf(format, a...))
}

// Join parks the caller until the given threads (default: all harness threads started with Go so
// far) have finished.
func (w *World) Join(ts ...*vsync.Thread) {
	if len(ts) == 0 {
		ts = append(ts, w.kids...)
	}
	vsync.BlockOn(func() bool {
		for _, t := range ts {
			if !t.Finished() {
				return false
			}
		}
		return true
	})
}

// Exec is the result of one execution.
type Exec struct {
	Status  vsync.Status
	Points  []vsync.Point
	Choices []int
	Steps   int
	Trace   uint64
	Blocked bool
	Obs     []string
	Fail    string
	Panic   string
	Parked  []string
	Nondet  string
	Log     []string
}

// Scenario is one closed program.
type Scenario struct {
	Name string
	// Main runs as logical thread 0; it builds the objects under test, starts the other threads with
	// w.Go and may Join them and make end-of-run assertions.
	Main func(w *World)
	// Invariant, if set, is evaluated at every scheduling decision with all threads parked.
	Invariant func(w *World) error
	// Final judges the finished execution (nil: any status other than Done is a violation).
	Final func(w *World, x *Exec) error
	// Horizon bounds the number of schedule points per execution (default 2000).
	Horizon int
	// MaxPB / MaxDev are the preemption and deviation bounds for (quick, thorough).
	PB  [2]int
	Dev [2]int
	// FB bounds, per tier, the number of non-default FREE choices (which thread continues when the running
	// one blocks or ends, which ready select case fires); 0 = unbounded.  Needed for programs with many
	// library threads, whose number of non-preemptive schedules alone is exponential.
	FB [2]int
	// Sig reduces a failure message to a stable signature component (default: first line, digits kept).
	Sig func(msg string) string
	// AllowParkedLib lets library threads stay parked at the end without it being a deadlock.
	AllowParkedLib bool
	// NoStateCache switches the happens-before fingerprint pruning off.
	NoStateCache bool
	// ProcessState: the scenario probes process-wide (package-level) state of the code under test, so
	// a replay in the same process continues from the polluted state; a violation is confirmed when
	// the replays fail again, whatever the step.
	ProcessState bool
	// Fine turns the rewriter's statement-level points into schedule points (lock-misuse detection);
	// it implies NoStateCache because the cache assumes data-race freedom.
	Fine bool
}

func runOnce(sc *Scenario, prefix []int, keepLog bool) (*World, *Exec) {
	return runOnceV(sc, prefix, keepLog, nil)
}

func runOnceV(sc *Scenario, prefix []int, keepLog bool, visit func(s *vsync.Sched, key uint64) bool) (*World, *Exec) {
	h := sc.Horizon
	if h == 0 {
		h = 2000
	}
	s := vsync.NewSched(prefix, h)
	s.KeepLog = keepLog
	s.Visit = visit
	s.FineMode = sc.Fine
	if sc.Fine {
		s.Visit = nil
	}
	w := &World{S: s, Data: map[string]interface{}{}}
	if sc.Invariant != nil {
		s.Invariant = func() error { return sc.Invariant(w) }
	}
	s.Spawn("main", func() { sc.Main(w) })
	s.Run()
	x := &Exec{Status: s.Status, Points: s.Points, Steps: s.Steps, Trace: s.Trace, Blocked: s.Blocked, Obs: w.obs, Fail: s.FailMsg, Nondet: s.Nondet, Log: s.Log}
	x.Choices = make([]int, len(s.Points))
	for i, p := range s.Points {
		x.Choices[i] = p.Chosen
	}
	if s.Status == vsync.Panicked {
		x.Panic = fmt.Sprintf("%v\n%s", s.PanicVal, s.PanicStk)
	}
	if s.Status != vsync.Done {
		x.Parked = s.ParkedInfo()
	}
	if s.Status == vsync.Deadlock && sc.AllowParkedLib {
		onlyLib := true
		for _, t := range s.Threads() {
			if !t.Finished() && !t.Lib {
				onlyLib = false
			}
		}
		if onlyLib {
			x.Status = vsync.Done
		}
	}
	return w, x
}

func judge(sc *Scenario, w *World, x *Exec) error {
	if x.Status == vsync.Pruned {
		return nil // an equivalent continuation was (or is being) explored from the first visit of this state
	}
	if sc.Final != nil {
		return sc.Final(w, x)
	}
	return DefaultFinal(w, x)
}

// DefaultFinal: every status other than Done is a violation.
func DefaultFinal(w *World, x *Exec) error {
	switch x.Status {
	case vsync.Done:
		return nil
	case vsync.Deadlock:
		return fmt.Errorf("deadlock: threads parked forever: %s", strings.Join(x.Parked, " "))
	case vsync.Panicked:
		return fmt.Errorf("panic: %s", firstLines(x.Panic, 1))
	case vsync.Failed:
		return fmt.Errorf("%s", x.Fail)
	case vsync.Horizon:
		return nil // reported as non-exhaustive, not as a violation
	}
	return nil
}

func firstLines(s string, n int) string {
	l := strings.SplitN(s, "\n", n+1)
	if len(l) > n {
		l = l[:n]
	}
	return strings.Join(l, " | ")
}

// Result is the outcome of exploring one scenario.
type Result struct {
	Execs       int64
	Steps       int64
	PointsSeen  int64
	Outcomes    map[uint64]bool
	Blocked     bool
	PBDone      int
	DevDone     int
	Exhaustive  bool
	HorizonHits int64
	Pruned      int64
	StatesSeen  int64
	Violation   *ev.Violation
	Nondet      string
	Sample      *Exec
}

type budget struct{ pb, dev, fb int }

type explorer struct {
	sc       *Scenario
	res      *Result
	visited  map[uint64]budget // state fingerprint -> best remaining budget it was explored with
	bud      budget
	deadline time.Time
	stop     bool
	vio      *Exec
	vioMsg   string
}

func cost(points []vsync.Point, choices []int) (pb, dev int) {
	for i, c := range choices {
		if c == 0 {
			continue
		}
		p := points[i]
		if p.Data {
			if !p.Free {
				dev++
			}
		} else if p.Preempt {
			pb++
		}
	}
	return
}

func (e *explorer) explore(prefix []int, spentPB, spentDev, spentFB int) {
	if e.stop {
		return
	}
	if e.res.Execs&255 == 0 && time.Now().After(e.deadline) {
		e.stop = true
		return
	}
	var visit func(s *vsync.Sched, key uint64) bool
	if e.visited != nil {
		visit = func(s *vsync.Sched, key uint64) bool {
			pb, dev, fb := 0, 0, 0
			for _, p := range s.Points {
				if p.Chosen == 0 {
					continue
				}
				if p.Data {
					if !p.Free {
						dev++
					} else {
						fb++
					}
				} else if p.Preempt {
					pb++
				} else {
					fb++
				}
			}
			rem := budget{e.bud.pb - pb, e.bud.dev - dev, e.bud.fb - fb}
			if old, ok := e.visited[key]; ok {
				if old.pb >= rem.pb && old.dev >= rem.dev && old.fb >= rem.fb {
					return true
				}
				if rem.pb >= old.pb && rem.dev >= old.dev && rem.fb >= old.fb {
					e.visited[key] = rem
				}
				return false
			}
			e.visited[key] = rem
			return false
		}
	}
	w, x := runOnceV(e.sc, prefix, false, visit)
	e.res.Execs++
	if x.Status == vsync.Pruned {
		e.res.Pruned++
	}
	e.res.Steps += int64(x.Steps)
	e.res.PointsSeen += int64(len(x.Points))
	if x.Blocked {
		e.res.Blocked = true
	}
	if x.Nondet != "" {
		e.res.Nondet = x.Nondet
		e.stop = true
		return
	}
	if x.Status == vsync.Horizon {
		e.res.HorizonHits++
	}
	if x.Status != vsync.Pruned {
		hh := fnv.New64a()
		hh.Write([]byte(x.Status.String()))
		for _, o := range x.Obs {
			hh.Write([]byte(o))
			hh.Write([]byte{0})
		}
		e.res.Outcomes[hh.Sum64()] = true
		if e.res.Sample == nil {
			e.res.Sample = x
		}
	}
	if err := judge(e.sc, w, x); err != nil {
		e.vio = x
		e.vioMsg = err.Error()
		e.stop = true
		return
	}
	for i := len(prefix); i < len(x.Points); i++ {
		p := x.Points[i]
		var dpb, ddev, dfb int
		if p.Data {
			if !p.Free {
				ddev = 1
			} else {
				dfb = 1
			}
		} else if p.Preempt {
			dpb = 1
		} else {
			dfb = 1
		}
		if spentPB+dpb > e.bud.pb || spentDev+ddev > e.bud.dev || spentFB+dfb > e.bud.fb {
			continue
		}
		for alt := 1; alt < p.N; alt++ {
			np := make([]int, i+1)
			copy(np, x.Choices[:i])
			np[i] = alt
			e.explore(np, spentPB+dpb, spentDev+ddev, spentFB+dfb)
			if e.stop {
				return
			}
		}
	}
}

func defaultSig(msg string) string {
	return firstLines(msg, 1)
}

// Explore runs one scenario under iterated bounds until maxPB/maxDev or the deadline.
func Explore(sc *Scenario, tierIdx int, deadline time.Time) *Result {
	res := &Result{Outcomes: map[uint64]bool{}, PBDone: -1, DevDone: -1}
	maxPB, maxDev := sc.PB[tierIdx], sc.Dev[tierIdx]
	// bounds are raised together: (0,0) (1,min(1,maxDev)) (2,min(2,maxDev)) ...
	for b := 0; b <= maxPB || b <= maxDev; b++ {
		fb := sc.FB[tierIdx]
		if fb == 0 {
			fb = 1 << 30
		}
		bud := budget{pb: min(b, maxPB), dev: min(b, maxDev), fb: fb}
		e := &explorer{sc: sc, res: res, bud: bud, deadline: deadline}
		if !sc.NoStateCache && !sc.Fine && os.Getenv("VERIF_NOCACHE") == "" {
			e.visited = map[uint64]budget{}
		}
		e.explore(nil, 0, 0, 0)
		res.StatesSeen = int64(len(e.visited))
		if e.vio != nil {
			res.Violation = confirm(sc, e.vio, e.vioMsg)
			if res.Violation != nil {
				return res
			}
			res.Nondet = "violation did not reproduce on replay: " + e.vioMsg
			return res
		}
		if res.Nondet != "" {
			return res
		}
		if e.stop {
			return res
		}
		res.PBDone, res.DevDone = bud.pb, bud.dev
	}
	res.Exhaustive = res.HorizonHits == 0
	return res
}

func confirm(sc *Scenario, x *Exec, msg string) *ev.Violation {
	var log []string
	for i := 0; i < 3; i++ {
		w, y := runOnce(sc, x.Choices, true)
		err := judge(sc, w, y)
		if sc.ProcessState {
			// the scenario probes process-wide state of the code under test: a polluted process fails
			// again, but not necessarily at the same step
			if err == nil {
				return nil
			}
			log = y.Log
			continue
		}
		if err == nil || y.Trace != x.Trace || y.Nondet != "" {
			return nil
		}
		log = y.Log
	}
	sigf := sc.Sig
	if sigf == nil {
		sigf = defaultSig
	}
	return &ev.Violation{
		Signature: sc.Name + ": " + sigf(msg),
		Scenario:  sc.Name,
		What:      msg,
		Replay:    map[string]interface{}{"scenario": sc.Name, "choices": x.Choices, "trace": log, "observations": x.Obs},
	}
}

// Warm runs one default-schedule execution of sc and discards the result (used to fill process-wide
// caches of the code under test so that every explored execution takes the same path).
func Warm(sc *Scenario) { runOnce(sc, nil, false) }

// Replay re-runs a recorded choice sequence and prints what happens.
func Replay(scs []*Scenario, v ev.Violation) int {
	m, _ := v.Replay.(map[string]interface{})
	name, _ := m["scenario"].(string)
	var choices []int
	if cs, ok := m["choices"].([]interface{}); ok {
		for _, c := range cs {
			f, _ := c.(float64)
			choices = append(choices, int(f))
		}
	}
	for _, sc := range scs {
		if sc.Name != name {
			continue
		}
		w, x := runOnce(sc, choices, true)
		for _, l := range x.Log {
			fmt.Println("  ", l)
		}
		fmt.Println("status:", x.Status, "obs:", x.Obs)
		if err := judge(sc, w, x); err != nil {
			fmt.Println("REPLAY: violation reproduced:", err)
			return 1
		}
		fmt.Println("REPLAY: no violation on this tree")
		return 0
	}
	fmt.Println("REPLAY: unknown scenario", name)
	return 2
}

func tierIdx(r *ev.Run) int {
	if r.Quick() {
		return 0
	}
	return 1
}

// RunScenarios explores the given scenarios in this process and records parts into r.
func RunScenarios(r *ev.Run, scs []*Scenario, perScenario time.Duration) (nondet string) {
	ti := tierIdx(r)
	for _, sc := range scs {
		if !r.Want(sc.Name) {
			continue
		}
		dl := time.Now().Add(perScenario)
		if dl.After(r.Deadline) {
			dl = r.Deadline
		}
		t0 := time.Now()
		res := Explore(sc, ti, dl)
		if os.Getenv("VERIF_CROSSCHECK") != "" && res.Violation == nil && res.Exhaustive && !sc.NoStateCache {
			// soundness cross-check of the state cache: the set of complete outcomes must not change
			sc2 := *sc
			sc2.NoStateCache = true
			res2 := Explore(&sc2, ti, time.Now().Add(10*time.Minute))
			same := len(res.Outcomes) == len(res2.Outcomes)
			for k := range res2.Outcomes {
				if !res.Outcomes[k] {
					same = false
				}
			}
			if res2.Exhaustive && !same {
				fmt.Printf("CROSSCHECK-MISMATCH %s: %d outcomes with the state cache, %d without\n", sc.Name, len(res.Outcomes), len(res2.Outcomes))
				nondet = sc.Name + ": state cache changes the outcome set"
			} else {
				fmt.Printf("CROSSCHECK-OK %s: %d outcomes, %d executions with cache, %d without\n", sc.Name, len(res.Outcomes), res.Execs, res2.Execs)
			}
		}
		p := ev.Part{Name: sc.Name, Evaluations: res.Execs, States: res.PointsSeen, Transitions: res.Steps, Outcomes: int64(len(res.Outcomes)),
			Exhaustive: res.Exhaustive, Blocked: res.Blocked, WallS: time.Since(t0).Seconds(),
			Bound: fmt.Sprintf("preemptions<=%d deviations<=%d completed (asked %d/%d)", res.PBDone, res.DevDone, sc.PB[ti], sc.Dev[ti])}
		if sc.FB[ti] < 0 {
			p.Bound += ", free choices: none (the single default schedule - the scenario probes configuration, not interleavings)"
		}
		if sc.FB[ti] > 0 {
			p.Bound += fmt.Sprintf(", free choices<=%d", sc.FB[ti])
		}
		if res.HorizonHits > 0 {
			p.Note = fmt.Sprintf("%d executions hit the step horizon", res.HorizonHits)
		}
		if sc.Fine {
			p.Note += " fine mode: statement-level schedule points inside the library code, no state cache"
		} else if !sc.NoStateCache {
			p.Note += fmt.Sprintf(" reduction: happens-before-fingerprint state cache, %d distinct states at the last bound, %d executions cut short at an already explored state", res.StatesSeen, res.Pruned)
		}
		if res.Nondet != "" {
			p.Note += " NONDETERMINISM: " + res.Nondet
			p.Exhaustive = false
			nondet = sc.Name + ": " + res.Nondet
		}
		r.AddPart(p)
		if res.Sample != nil {
			r.Sample(map[string]interface{}{"scenario": sc.Name, "choices": res.Sample.Choices, "observations": res.Sample.Obs, "status": res.Sample.Status.String()})
		}
		if res.Violation != nil {
			r.Violate(*res.Violation)
		}
	}
	return
}

// Main is the entry point of an engine-S binary: worker when --shard is given, driver otherwise.
func Main(r *ev.Run, scs []*Scenario) {
	sort.SliceStable(scs, func(i, j int) bool { return scs[i].Name < scs[j].Name })
	if r.ReplayPath != "" {
		v, err := ev.LoadReplay(r.ReplayPath)
		if err != nil {
			fmt.Println("cannot read replay:", err)
			os.Exit(2)
		}
		os.Exit(Replay(scs, v))
	}
	if r.Shard == "count" {
		fmt.Printf("COUNT %d\n", len(scs))
		return
	}
	if r.Shard != "" {
		runtime.GOMAXPROCS(1)
		var i int
		fmt.Sscanf(r.Shard, "%d", &i)
		var mine []*Scenario
		if i >= 0 && i < len(scs) {
			mine = append(mine, scs[i])
		}
		nd := RunScenarios(r, mine, time.Until(r.Deadline))
		if nd != "" {
			fmt.Println("NONDETERMINISM", nd)
		}
		r.EmitWorker()
		return
	}
	nd := Drive(r, os.Args[0], len(scs))
	if nd != "" && r.NViolations() == 0 {
		fmt.Println("NONDETERMINISM (machinery error, not a verdict):", nd)
		r.Finish0(2)
	}
	r.Finish()
}

// DriveBin asks the engine-S binary how many scenarios it has and drives it.
func DriveBin(r *ev.Run, bin string) (nondet string) {
	if bin == "" {
		return "engine-S companion binary not built (VERIF_SCHED_BIN unset)"
	}
	out, err := exec.Command(bin, "--tier", r.Tier, "--shard", "count").Output()
	if err != nil {
		return "engine-S companion: " + err.Error()
	}
	n := 0
	for _, l := range strings.Split(string(out), "\n") {
		fmt.Sscanf(l, "COUNT %d", &n)
	}
	if n == 0 {
		return "engine-S companion reports no scenarios"
	}
	return Drive(r, bin, n)
}

// Drive runs one worker process of bin per scenario (at most 16 at a time, handed out dynamically)
// and merges their results into r.
func Drive(r *ev.Run, bin string, nScen int) (nondet string) {
	n := runtime.NumCPU()
	if n > 16 {
		n = 16
	}
	if nScen < n {
		n = nScen
	}
	if n < 1 {
		n = 1
	}
	var mu sync.Mutex
	var wg sync.WaitGroup
	next := 0
	for i := 0; i < n; i++ {
		wg.Add(1)
		go func() {
			defer wg.Done()
			for {
				mu.Lock()
				k := next
				next++
				mu.Unlock()
				if k >= nScen {
					return
				}
				left := time.Until(r.Deadline)
				if left < 2*time.Second {
					left = 2 * time.Second
				}
				args := []string{"--tier", r.Tier, "--shard", fmt.Sprint(k), "--budget", left.String()}
				if r.Only != "" {
					args = append(args, "--only", r.Only)
				}
				cmd := exec.Command(bin, args...)
				cmd.Stderr = os.Stderr
				out, err := cmd.StdoutPipe()
				if err == nil {
					err = cmd.Start()
				}
				if err != nil {
					mu.Lock()
					nondet = "worker start: " + err.Error()
					mu.Unlock()
					return
				}
				sc := bufio.NewScanner(out)
				sc.Buffer(make([]byte, 1<<20), 64<<20)
				got := false
				for sc.Scan() {
					line := sc.Text()
					if strings.HasPrefix(line, "WORKER-RESULT ") {
						var wr ev.WorkerResult
						if json.Unmarshal([]byte(line[len("WORKER-RESULT "):]), &wr) == nil {
							mu.Lock()
							r.Merge(wr)
							mu.Unlock()
							got = true
						}
					} else if strings.HasPrefix(line, "NONDETERMINISM") {
						mu.Lock()
						nondet = line
						mu.Unlock()
					} else {
						fmt.Println(line)
					}
				}
				if err := cmd.Wait(); err != nil || !got {
					mu.Lock()
					nondet = fmt.Sprintf("worker for scenario %d failed: %v", k, err)
					mu.Unlock()
				}
			}
		}()
	}
	wg.Wait()
	return
}
