// Package seq is the sequential explorer (engines H and I): bounded-exhaustive enumeration of
// operation sequences on a fresh real object, each step compared with a reference model, with
// optional merging of equal implementation states (breadth-first over distinct states).
package seq

import (
	"crypto/sha1"
	"fmt"
	"hash/fnv"
	"runtime/debug"
	"strings"
	"sync"
	"sync/atomic"
	"time"

	"verifh/ev"
)

// Op is one alphabet letter.  Step performs the call on the implementation and on the model and
// returns the observation (used for outcome counting and samples) and "" or a description of the
// disagreement.
type Op[S any] struct {
	Name string
	Step func(s S) (obs string, bad string)
	// Enabled optionally restricts when the op may be issued (e.g. only calls that cannot block).
	Enabled func(s S) bool
}

// Spec is one exploration.
type Spec[S any] struct {
	Name string
	Ops  []Op[S]
	// New builds a fresh (implementation, model) pair.
	New func() S
	// Key returns a canonical dump of the complete implementation(+model) state; "" disables merging.
	Key func(s S) string
	// After is checked after every step ("" = fine).
	After func(s S) string
	// OnNew is checked only when a step reaches a state not seen before (needs Key).
	OnNew func(s S) string
	// AtEnd is run on every maximal / every visited path end if EndEvery (drain and compare…).
	AtEnd func(s S) string
	Depth int
	// Sig maps (path, message) to the signature class of a violation.
	Sig func(path []string, msg string) string
	// MaxViolations stops collecting after this many distinct signatures (default 20).
	MaxViolations int
}

// Stats is what an exploration covered.
type Stats struct {
	States      int64
	Transitions int64
	Sequences   int64
	Outcomes    map[uint64]struct{}
	Exhaustive  bool
	DepthDone   int
	Merged      bool
}

type viol struct {
	path []string
	msg  string
}

// ---- watchdog: a call that the alphabet says cannot block, and that never returns ----
//
// Every step is registered while it runs; a background goroutine reports a step that has been running
// for more than stuckAfter as a violation (with the operation sequence that led to it) and ends the
// process with exit 1 - a hung check would otherwise never deliver a verdict.
const stuckAfter = 60 * time.Second

type inflight struct {
	since int64 // unix nano, 0 = idle
	spec  string
	desc  func() []string
}

var (
	flights   sync.Map // *inflight -> struct{}
	watchOnce sync.Once
	watchRun  *ev.Run
)

func startWatch(r *ev.Run) {
	watchOnce.Do(func() {
		watchRun = r
		go func() {
			for {
				time.Sleep(2 * time.Second)
				now := time.Now().UnixNano()
				flights.Range(func(k, _ interface{}) bool {
					f := k.(*inflight)
					t := atomic.LoadInt64(&f.since)
					if t != 0 && now-t > int64(stuckAfter) {
						var names []string
						if f.desc != nil {
							names = f.desc()
						}
						watchRun.Violate(ev.Violation{Signature: f.spec + ": a call that cannot block according to the reference model does not return", Scenario: f.spec,
							What:   fmt.Sprintf("the last call of %v has not returned after %v (blocked or looping)", names, stuckAfter),
							Replay: map[string]interface{}{"spec": f.spec, "ops": names}})
						watchRun.Finish()
					}
					return true
				})
			}
		}()
	})
}

func safeStep[S any](op *Op[S], s S) (obs, bad string) {
	defer func() {
		if r := recover(); r != nil {
			bad = fmt.Sprintf("panic: %v\n%s", r, trimStack(string(debug.Stack())))
		}
	}()
	return op.Step(s)
}

func safeStr[S any](f func(S) string, s S) (out string) {
	if f == nil {
		return ""
	}
	defer func() {
		if r := recover(); r != nil {
			out = fmt.Sprintf("panic: %v", r)
		}
	}()
	return f(s)
}

func trimStack(st string) string {
	lines := strings.Split(st, "\n")
	var keep []string
	for _, l := range lines {
		if strings.Contains(l, "neptune") && !strings.Contains(l, "zverif") {
			keep = append(keep, strings.TrimSpace(l))
			if len(keep) >= 4 {
				break
			}
		}
	}
	return strings.Join(keep, " <- ")
}

// Explore runs the spec and records a part, samples and violations into r.
func Explore[S any](r *ev.Run, sp *Spec[S]) *Stats {
	t0 := time.Now()
	st := &Stats{Outcomes: map[uint64]struct{}{}, Exhaustive: true, Merged: sp.Key != nil}
	maxV := sp.MaxViolations
	if maxV == 0 {
		maxV = 20
	}
	sigs := map[string]bool{}
	report := func(path []int, msg string) {
		names := make([]string, len(path))
		for i, p := range path {
			names[i] = sp.Ops[p].Name
		}
		var sig string
		if sp.Sig != nil {
			sig = sp.Sig(names, msg)
		} else {
			last := ""
			if len(names) > 0 {
				last = names[len(names)-1]
			}
			sig = last + ": " + firstLine(msg)
		}
		sig = sp.Name + ": " + sig
		if sigs[sig] {
			return
		}
		sigs[sig] = true
		r.Violate(ev.Violation{Signature: sig, Scenario: sp.Name, What: msg, Replay: map[string]interface{}{"spec": sp.Name, "ops": names}})
	}
	// replay builds the state reached by path; returns ok=false if a step disagrees (already reported
	// when it was first taken, so silent here).
	startWatch(r)
	var curPath []int
	fl := &inflight{spec: sp.Name}
	fl.desc = func() []string {
		names := make([]string, 0, len(curPath))
		for _, p := range curPath {
			if p >= 0 && p < len(sp.Ops) {
				names = append(names, sp.Ops[p].Name)
			}
		}
		return names
	}
	flights.Store(fl, struct{}{})
	defer flights.Delete(fl)
	replay := func(path []int) (S, bool) {
		s := sp.New()
		for i, p := range path {
			curPath = path[:i+1]
			atomic.StoreInt64(&fl.since, time.Now().UnixNano())
			_, bad := safeStep(&sp.Ops[p], s)
			atomic.StoreInt64(&fl.since, 0)
			if bad != "" {
				return s, false
			}
		}
		return s, true
	}
	type node struct{ path []int }
	frontier := []node{{nil}}
	seen := map[[16]byte]bool{}
	if sp.Key != nil {
		s := sp.New()
		seen[h128(sp.Key(s))] = true
		st.States = 1
	}
	sampled := 0
	for depth := 0; depth < sp.Depth && len(frontier) > 0; depth++ {
		var next []node
		for _, n := range frontier {
			if len(sigs) >= maxV {
				st.Exhaustive = false
				break
			}
			if st.Transitions&1023 == 0 && r.Expired() {
				st.Exhaustive = false
				break
			}
			for oi := range sp.Ops {
				op := &sp.Ops[oi]
				s, ok := replay(n.path)
				if !ok {
					break
				}
				if op.Enabled != nil && !op.Enabled(s) {
					continue
				}
				path := append(append([]int(nil), n.path...), oi)
				curPath = path
				atomic.StoreInt64(&fl.since, time.Now().UnixNano())
				obs, bad := safeStep(op, s)
				atomic.StoreInt64(&fl.since, 0)
				st.Transitions++
				st.Outcomes[h64(op.Name, obs)] = struct{}{}
				if bad == "" {
					bad = safeStr(sp.After, s)
				}
				if bad == "" && sp.AtEnd != nil {
					// AtEnd may consume the state, so it works on its own copy
					s2, ok2 := replay(path)
					if ok2 {
						atomic.StoreInt64(&fl.since, time.Now().UnixNano())
						bad = safeStr(sp.AtEnd, s2)
						atomic.StoreInt64(&fl.since, 0)
					}
				}
				if bad != "" {
					report(path, bad)
					continue
				}
				st.Sequences++
				if sampled < 2 && depth == sp.Depth-1 {
					sampled++
					names := make([]string, len(path))
					for i, p := range path {
						names[i] = sp.Ops[p].Name
					}
					r.Sample(map[string]interface{}{"spec": sp.Name, "ops": names, "last_observation": obs})
				}
				if sp.Key != nil {
					k := h128(sp.Key(s))
					if seen[k] {
						continue
					}
					seen[k] = true
					st.States++
					if sp.OnNew != nil {
						if bad := safeStr(sp.OnNew, s); bad != "" {
							report(path, bad)
							continue
						}
					}
				} else {
					st.States++
				}
				next = append(next, node{path})
			}
		}
		if !st.Exhaustive {
			break
		}
		st.DepthDone = depth + 1
		frontier = next
	}
	bound := fmt.Sprintf("depth %d of %d completed, alphabet %d", st.DepthDone, sp.Depth, len(sp.Ops))
	if sp.Key != nil {
		if st.DepthDone == sp.Depth && len(frontier) > 0 {
			bound += fmt.Sprintf(", %d unexpanded states at the depth bound", len(frontier))
		} else if st.DepthDone < sp.Depth || len(frontier) == 0 {
			if st.Exhaustive {
				bound += ", fixpoint reached (all reachable states visited)"
			}
		}
	}
	r.AddPart(ev.Part{Name: sp.Name, Evaluations: st.Sequences, States: st.States, Transitions: st.Transitions, Outcomes: int64(len(st.Outcomes)),
		Exhaustive: st.Exhaustive, Bound: bound, WallS: time.Since(t0).Seconds(), Blocked: true})
	return st
}

func h64(a, b string) uint64 {
	h := fnv.New64a()
	h.Write([]byte(a))
	h.Write([]byte{0})
	h.Write([]byte(b))
	return h.Sum64()
}

func h128(k string) [16]byte {
	x := sha1.Sum([]byte(k))
	var o [16]byte
	copy(o[:], x[:16])
	return o
}

func firstLine(s string) string {
	if i := strings.IndexByte(s, '\n'); i >= 0 {
		s = s[:i]
	}
	if len(s) > 300 {
		s = s[:300]
	}
	return s
}

// Family is an engine-I enumeration: Run is called once and reports its own counts.
type Family struct {
	Name string
	// Run enumerates the family; it calls c.Case for every case.
	Run func(c *Ctx)
}

// Ctx collects the results of a family.
type Ctx struct {
	r        *ev.Run
	name     string
	Cases    int64
	outcomes map[string]bool
	nviol    int
	samples  int
	stopped  bool
	beat     int64
	fl       *inflight
}

// Case records one evaluated case: class is its outcome class (for distinct counting), bad "" or
// the disagreement; sig the signature class of the disagreement; sample a printable form.
func (c *Ctx) Case(class string, bad string, sig string, sample func() interface{}) {
	c.Cases++
	if c.fl != nil { // heartbeat for the watchdog: a family whose next case never finishes is reported
		atomic.AddInt64(&c.beat, 1)
		atomic.StoreInt64(&c.fl.since, time.Now().UnixNano()+int64(280*time.Second))
	}
	if len(c.outcomes) < 100000 {
		c.outcomes[class] = true
	}
	if c.samples < 2 && sample != nil && bad == "" {
		c.samples++
		c.r.Sample(map[string]interface{}{"family": c.name, "case": sample()})
	}
	if bad != "" {
		c.nviol++
		var rp interface{}
		if sample != nil {
			rp = sample()
		}
		c.r.Violate(ev.Violation{Signature: c.name + ": " + sig, Scenario: c.name, What: bad, Replay: map[string]interface{}{"family": c.name, "case": rp}})
	}
}

// Expired reports whether the run's deadline passed (the family should stop and is then reported
// as not exhaustive).
func (c *Ctx) Expired() bool {
	if c.Cases&4095 == 0 && c.r.Expired() {
		c.stopped = true
	}
	return c.stopped
}

// Quick reports the tier.
func (c *Ctx) Quick() bool { return c.r.Quick() }

// RunFamily runs one family and records its part.
func RunFamily(r *ev.Run, f Family) {
	if !r.Want(f.Name) {
		return
	}
	t0 := time.Now()
	c := &Ctx{r: r, name: f.Name, outcomes: map[string]bool{}}
	startWatch(r)
	fl := &inflight{spec: f.Name, desc: func() []string { return []string{fmt.Sprintf("case #%d of the family", atomic.LoadInt64(&c.beat)+1)} }}
	c.fl = fl
	atomic.StoreInt64(&fl.since, time.Now().UnixNano())
	flights.Store(fl, struct{}{})
	defer flights.Delete(fl)
	func() {
		defer func() {
			if rec := recover(); rec != nil {
				c.Case("panic", fmt.Sprintf("panic escaped the family: %v\n%s", rec, trimStack(string(debug.Stack()))), fmt.Sprintf("panic: %v", rec), nil)
			}
		}()
		f.Run(c)
	}()
	r.AddPart(ev.Part{Name: f.Name, Evaluations: c.Cases, States: c.Cases, Transitions: c.Cases, Outcomes: int64(len(c.outcomes)), Exhaustive: !c.stopped,
		Bound: "complete enumeration of the family", WallS: time.Since(t0).Seconds(), Blocked: true})
}

// Parallel runs the jobs on up to n goroutines.
func Parallel(n int, jobs []func()) {
	if n < 1 {
		n = 1
	}
	ch := make(chan func())
	var wg sync.WaitGroup
	for i := 0; i < n; i++ {
		wg.Add(1)
		go func() {
			defer wg.Done()
			for j := range ch {
				j()
			}
		}()
	}
	for _, j := range jobs {
		ch <- j
	}
	close(ch)
	wg.Wait()
}
