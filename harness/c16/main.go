// C16: stcp session — single exit, balanced count, flush before local close (engine S with fault enumeration).
package main

import (
	"bytes"
	"errors"
	"fmt"
	"io"
	"net"
	"sort"
	"strings"
	"time"

	"github.com/pinealctx/neptune/stcp"
	"github.com/pinealctx/neptune/zverif/vsync"

	"github.com/pinealctx/neptune/zverif/vtime"

	"verifh/ev"
	"verifh/mc"
	_ "verifh/quiet"
)

// ---- fake net.Conn built from shim primitives ----

type timeoutErr struct{}

func (timeoutErr) Error() string   { return "i/o timeout (injected)" }
func (timeoutErr) Timeout() bool   { return true }
func (timeoutErr) Temporary() bool { return true }

var (
	errRead   = errors.New("injected read error")
	errWrite  = errors.New("injected write error")
	errClosed = errors.New("use of closed connection")
)

type addr string

func (a addr) Network() string { return "fake" }
func (a addr) String() string  { return string(a) }

type conn struct {
	w                *mc.World
	name             string
	in               chan []byte   // peer -> session; closed by the peer = peer close
	closedCh         chan struct{} // closed by Close()
	closed           int           // number of Close calls
	buf              []byte
	peerGot          []byte // bytes the peer has received
	faults           bool   // injected read/write faults enabled
	writesAfterClose int
}

func newConn(w *mc.World, name string, faults bool) *conn {
	return &conn{w: w, name: name, in: make(chan []byte, 8), closedCh: make(chan struct{}), faults: faults}
}

func (c *conn) Read(p []byte) (int, error) {
	c.w.Touch()
	if len(p) == 0 {
		return 0, nil
	}
	if len(c.buf) == 0 {
		if c.faults {
			switch vsync.Choose(3) {
			case 1:
				return 0, timeoutErr{}
			case 2:
				return 0, errRead
			}
		}
		switch vsync.Select(false, vsync.R(c.in), vsync.R(c.closedCh)) {
		case 0:
			b, ok := <-c.in
			c.w.Touch()
			if !ok {
				return 0, io.EOF
			}
			c.buf = b
		default:
			<-c.closedCh
			return 0, errClosed
		}
	}
	n := copy(p, c.buf)
	c.buf = c.buf[n:]
	return n, nil
}

func (c *conn) Write(p []byte) (int, error) {
	c.w.Touch()
	if c.closed > 0 {
		c.writesAfterClose++
		return 0, errClosed
	}
	if c.faults {
		switch vsync.Choose(3) {
		case 1:
			return 0, timeoutErr{}
		case 2:
			return 0, errWrite
		}
	}
	c.peerGot = append(c.peerGot, p...)
	return len(p), nil
}

func (c *conn) Close() error {
	c.w.Touch()
	c.closed++
	if c.closed > 1 {
		return errClosed
	}
	vsync.Close(c.closedCh)
	if c.faults && vsync.Choose(2) == 1 {
		// the connection is closed all the same, but Close reports an error (e.g. TLS close_notify not written)
		return errors.New("injected close error")
	}
	return nil
}

func (c *conn) LocalAddr() net.Addr           { return addr("local") }
func (c *conn) RemoteAddr() net.Addr          { return addr(c.name) }
func (c *conn) SetDeadline(t time.Time) error { return nil }
func (c *conn) SetReadDeadline(t time.Time) error {
	if c.faults && c.closed == 0 && vsync.Choose(2) == 1 {
		return errors.New("injected set-read-deadline error")
	}
	return nil
}
func (c *conn) SetWriteDeadline(t time.Time) error {
	if c.faults && c.closed == 0 && vsync.Choose(2) == 1 {
		return errors.New("injected set-write-deadline error")
	}
	return nil
}

// ---- handler ----

type handler struct {
	w      *mc.World
	exits  map[*stcp.Session]int
	frames map[*stcp.Session][]byte
}

func (h *handler) Read(s *stcp.Session) error {
	var b [1]byte
	err := s.Read(b[:])
	h.w.Touch()
	if err != nil {
		return err
	}
	h.frames[s] = append(h.frames[s], b[0])
	if b[0] == 'P' {
		panic("handler panic on frame P")
	}
	return nil
}

func (h *handler) OnExit(s *stcp.Session) {
	h.w.Touch()
	h.exits[s]++
}

type world struct {
	w     *mc.World
	h     *handler
	mgr   *stcp.SessionMgr
	count func() int32 // set when another manager type is under test
	max   int32
	seen  int32 // highest count observed
}

func newWorld(w *mc.World) *world {
	h := &handler{w: w, exits: map[*stcp.Session]int{}, frames: map[*stcp.Session][]byte{}}
	x := &world{w: w, h: h, mgr: stcp.NewSessionMgr(h)}
	w.Data["x"] = x
	return x
}

// endChecks: after every thread has finished
func (x *world) endChecks(sess []*stcp.Session, conns []*conn) {
	w := x.w
	w.Touch()
	for i, s := range sess {
		if n := x.h.exits[s]; n != 1 {
			w.Failf("the exit callback of session %d ran %d times", i, n)
		}
		if conns[i].closed == 0 {
			w.Failf("session %d ended but its connection was never closed", i)
		}
	}
	if n := x.mgr.ConnCount(); n != 0 {
		w.Failf("all sessions ended but the manager's connection count is %d", n)
	}
}

// session scenario: one or two sessions, local senders/closer, peer writer/closer, faults by explorer choice
type sessProg struct {
	shared     bool // the payloads are sub-slices of ONE caller-owned array, handed over out of order
	lateStart  bool // Send and Close are issued BEFORE Start (life-cycle order nobody wrote)
	name       string
	sessions   int
	sends      []string // payloads the local side sends (then, if localClose, closes)
	localClose bool
	peerFrames string // frames the peer sends, then, if peerClose, closes
	peerClose  bool
	faults     bool
	flush      bool // only terminating event is the local close: the peer must have received everything
	pb         [2]int
	dev        [2]int
	fb         [2]int
}

func sessScenario(p sessProg) *mc.Scenario {
	return &mc.Scenario{Name: "session/" + p.name, PB: p.pb, Dev: p.dev, FB: p.fb,
		Main: func(w *mc.World) {
			x := newWorld(w)
			var sess []*stcp.Session
			var conns []*conn
			accepted := make([][]string, p.sessions)
			backings := make([][]byte, p.sessions)
			for i := 0; i < p.sessions; i++ {
				c := newConn(w, fmt.Sprintf("peer%d", i), p.faults)
				s := stcp.NewSession(x.mgr, c)
				sess, conns = append(sess, s), append(conns, c)
			}
			for i := range sess {
				i := i
				s, c := sess[i], conns[i]
				w.Go(fmt.Sprintf("local%d", i), func() {
					if !p.lateStart {
						s.Start()
						s.Start() // idempotent
					}
					var offs []int
					if p.shared {
						// one array holding all payloads back to back; sent in the order 0, last, 1, ... so that a
						// frame's spare capacity is the memory of a frame that is still queued
						for _, pl := range p.sends {
							offs = append(offs, len(backings[i]))
							backings[i] = append(backings[i], pl...)
						}
						offs = append(offs, len(backings[i]))
					}
					order := make([]int, 0, len(p.sends))
					for k := range p.sends {
						order = append(order, k)
					}
					if p.shared && len(order) > 2 {
						order = append([]int{0, len(order) - 1}, order[1:len(order)-1]...)
					}
					for _, k := range order {
						pl := p.sends[k]
						buf := []byte(pl)
						if p.shared {
							buf = backings[i][offs[k]:offs[k+1]] // len < cap: the rest of the array lies behind it
						}
						if err := s.Send(buf); err == nil {
							w.Touch()
							accepted[i] = append(accepted[i], pl)
						}
					}
					if p.localClose {
						s.Close()
					}
					if p.lateStart {
						s.Start()
					}
				})
				if p.peerFrames != "" || p.peerClose {
					w.Go(fmt.Sprintf("peer%d", i), func() {
						for _, f := range []byte(p.peerFrames) {
							vsync.BeforeSend(c.in)
							c.in <- []byte{f}
						}
						if p.peerClose {
							vsync.Close(c.in)
						}
					})
				}
			}
			w.Join()
			// the session goroutines are library threads: wait for them too
			vsync.BlockOn(func() bool {
				for _, t := range w.S.Threads() {
					if t.Lib && !t.Finished() {
						return false
					}
				}
				return true
			})
			x.endChecks(sess, conns)
			if p.shared {
				for i := range backings {
					if want := strings.Join(p.sends, ""); string(backings[i]) != want {
						w.Failf("session %d wrote into the caller's payload memory: the array handed to Send as sub-slices now reads %q, was %q", i, backings[i], want)
					}
				}
			}
			if p.flush {
				for i, c := range conns {
					want := strings.Join(accepted[i], "")
					if string(c.peerGot) != want {
						w.Failf("session %d: Send accepted %q before the local Close but the peer received %q before the connection closed", i, want, c.peerGot)
					}
					if len(accepted[i]) != len(p.sends) {
						w.Failf("session %d: a Send issued before the local Close was refused", i)
					}
				}
			}
			w.Obs("got=%q exits=%d", conns[0].peerGot, x.h.exits[sess[0]])
		},
		Invariant: countInvariant}
}

func countInvariant(w *mc.World) error {
	xi, ok := w.Data["x"]
	if !ok {
		return nil
	}
	x := xi.(*world)
	n := int32(0)
	if x.count != nil {
		n = x.count()
	} else {
		n = x.mgr.ConnCount()
	}
	if n < 0 {
		return fmt.Errorf("connection count is negative (%d)", n)
	}
	if x.max > 0 && n > x.max {
		return fmt.Errorf("connection count %d exceeds the configured maximum %d", n, x.max)
	}
	return nil
}

// ---- accept loop ----

type listener struct {
	w  *mc.World
	ch chan net.Conn
}

func (l *listener) Accept() (net.Conn, error) {
	vsync.BeforeRecv(l.ch)
	c, ok := <-l.ch
	l.w.Touch()
	if !ok {
		return nil, errors.New("listener closed")
	}
	return c, nil
}
func (l *listener) Close() error   { return nil }
func (l *listener) Addr() net.Addr { return addr("listener") }

func acceptScenario(nconn int, max int32, pb, fb [2]int) *mc.Scenario {
	return &mc.Scenario{Name: fmt.Sprintf("accept/conns=%d/max=%d", nconn, max), PB: pb, FB: fb,
		Main: func(w *mc.World) {
			x := newWorld(w)
			x.max = max
			srv := stcp.NewTCPSrv("fake", x.mgr)
			ln := &listener{w: w, ch: make(chan net.Conn, 4)}
			var conns []*conn
			for i := 0; i < nconn; i++ {
				conns = append(conns, newConn(w, fmt.Sprintf("peer%d", i), false))
			}
			w.Go("acceptor", func() { _ = stcp.VerifLoopAccept(srv, ln, stcp.WithMaxConn(max)) })
			w.Go("dialer", func() {
				for _, c := range conns {
					vsync.BeforeSend(ln.ch)
					ln.ch <- c
				}
				vsync.Close(ln.ch)
			})
			for i, c := range conns {
				c := c
				w.Go(fmt.Sprintf("peer%d", i), func() {
					vsync.BeforeSend(c.in)
					c.in <- []byte{'a'}
					vsync.Close(c.in) // peer closes: an accepted session ends, a refused one is already closed
				})
			}
			w.Join()
			vsync.BlockOn(func() bool {
				for _, t := range w.S.Threads() {
					if t.Lib && !t.Finished() {
						return false
					}
				}
				return true
			})
			w.Touch()
			for i, c := range conns {
				if c.closed == 0 {
					w.Failf("connection %d was neither served to its end nor closed on accept", i)
				}
			}
			total := 0
			for _, n := range x.h.exits {
				if n != 1 {
					w.Failf("an accepted session's exit callback ran %d times", n)
				}
				total++
			}
			if n := x.mgr.ConnCount(); n != 0 {
				w.Failf("every connection is finished but the connection count is %d", n)
			}
			w.Obs("served=%d of %d", total, nconn)
		},
		Invariant: countInvariant}
}

// ---- timed connection: deadlines are honoured on a virtual clock (discrete-event time) ----

const (
	rtTicks = 5 // read timeout of the timed manager, in ticks (= virtual seconds)
	wtTicks = 2 // write timeout
)

var clockBase = time.Unix(1700000000, 0)

type tclock struct {
	w   *mc.World
	now int64
}

func toTick(t time.Time) int64 {
	if t.IsZero() {
		return 0
	}
	return int64(t.Sub(clockBase) / time.Second)
}

// tconn: Read blocks until data, peer close, local close or the read deadline; Write to a stalled
// peer blocks until local close or the write deadline (like net.Conn, a deadline set while the
// operation is pending applies to it).
type tconn struct {
	w            *mc.World
	ck           *tclock
	q            []byte
	peerClosed   bool
	stalled      bool
	closed       int
	rdl, wdl     int64 // 0 = none
	rBlocked     bool
	wBlocked     bool
	lastReadRet  int64
	lastWriteRet int64
	peerGot      []byte
}

func (c *tconn) Read(p []byte) (int, error) {
	w := c.w
	w.Touch()
	if len(p) == 0 {
		return 0, nil
	}
	tr := c.ck.now
	c.rBlocked = true
	vsync.BlockOn(func() bool {
		return len(c.q) > 0 || c.peerClosed || c.closed > 0 || (c.rdl > 0 && c.ck.now >= c.rdl)
	})
	w.Touch()
	c.rBlocked = false
	defer func() { c.lastReadRet = c.ck.now }()
	switch {
	case c.closed > 0:
		return 0, errClosed
	case len(c.q) > 0:
		n := copy(p, c.q)
		c.q = c.q[n:]
		return n, nil
	case c.peerClosed:
		return 0, io.EOF
	}
	// read timeout: it must be the one the receive loop armed for this read
	if c.rdl > tr+rtTicks {
		w.Failf("a read issued at t=%d with read timeout %d was still armed until t=%d: something re-armed the read deadline", tr, rtTicks, c.rdl)
	}
	if c.rdl < c.lastReadRet+rtTicks {
		w.Failf("a read timed out at t=%d although the previous read returned at t=%d and the read timeout is %d: the peer was not silent for the configured time", c.rdl, c.lastReadRet, rtTicks)
	}
	return 0, timeoutErr{}
}

func (c *tconn) Write(p []byte) (int, error) {
	w := c.w
	w.Touch()
	if c.closed > 0 {
		return 0, errClosed
	}
	if !c.stalled {
		c.peerGot = append(c.peerGot, p...)
		c.lastWriteRet = c.ck.now
		return len(p), nil
	}
	tw := c.ck.now
	c.wBlocked = true
	vsync.BlockOn(func() bool { return c.closed > 0 || (c.wdl > 0 && c.ck.now >= c.wdl) })
	w.Touch()
	c.wBlocked = false
	defer func() { c.lastWriteRet = c.ck.now }()
	if c.closed > 0 {
		return 0, errClosed
	}
	if c.wdl > tw+wtTicks {
		w.Failf("a write to a peer that does not read, issued at t=%d with write timeout %d, was still armed until t=%d: something re-armed the write deadline, the session outlives its write timeout", tw, wtTicks, c.wdl)
	}
	if c.wdl < c.lastWriteRet+wtTicks {
		w.Failf("a write timed out at t=%d although the previous write returned at t=%d and the write timeout is %d", c.wdl, c.lastWriteRet, wtTicks)
	}
	return 0, timeoutErr{}
}

func (c *tconn) Close() error {
	c.w.Touch()
	c.closed++
	if c.closed > 1 {
		return errClosed
	}
	return nil
}
func (c *tconn) LocalAddr() net.Addr  { return addr("local") }
func (c *tconn) RemoteAddr() net.Addr { return addr("timed-peer") }
func (c *tconn) SetDeadline(t time.Time) error {
	c.w.Touch()
	c.rdl, c.wdl = toTick(t), toTick(t)
	return nil
}
func (c *tconn) SetReadDeadline(t time.Time) error  { c.w.Touch(); c.rdl = toTick(t); return nil }
func (c *tconn) SetWriteDeadline(t time.Time) error { c.w.Touch(); c.wdl = toTick(t); return nil }

type timedProg struct {
	name       string
	stalled    bool
	sends      []string
	localClose bool
	peerFrames string
	peerClose  bool
	freeTicks  int
	pb         [2]int
}

// timedScenario: one session over a tconn; a clock thread first ticks freeTicks times at arbitrary
// points of the schedule, then advances time to the next pending deadline whenever everything else
// is blocked (discrete-event time), until every other thread has finished.
func timedScenario(p timedProg) *mc.Scenario {
	return &mc.Scenario{Name: "timed/" + p.name, PB: p.pb,
		Main: func(w *mc.World) {
			ck := &tclock{w: w}
			vtime.NowFn = func() time.Time { w.Touch(); return clockBase.Add(time.Duration(ck.now) * time.Second) }
			h := &handler{w: w, exits: map[*stcp.Session]int{}, frames: map[*stcp.Session][]byte{}}
			mgr := stcp.NewSessionMgr(h, stcp.WithReadTimeout(rtTicks*time.Second), stcp.WithWriteTimeout(wtTicks*time.Second))
			c := &tconn{w: w, ck: ck, stalled: p.stalled}
			s := stcp.NewSession(mgr, c)
			var accepted []string
			w.Go("local", func() {
				s.Start()
				for _, pl := range p.sends {
					if err := s.Send([]byte(pl)); err == nil {
						w.Touch()
						accepted = append(accepted, pl)
					}
				}
				if p.localClose {
					s.Close()
				}
			})
			w.Go("peer", func() {
				for _, f := range []byte(p.peerFrames) {
					vsync.Yield()
					w.Touch()
					c.q = append(c.q, f)
				}
				if p.peerClose {
					vsync.Yield()
					w.Touch()
					c.peerClosed = true
				}
			})
			var clock *vsync.Thread
			clock = w.Go("clock", func() {
				for i := 0; i < p.freeTicks; i++ {
					vsync.Yield()
					w.Touch()
					ck.now++
				}
				for {
					done := false
					vsync.BlockOn(func() bool {
						all := true
						for _, t := range w.S.Threads() {
							if t == clock || t == w.S.Threads()[0] {
								continue
							}
							if !t.Finished() {
								all = false
								if !w.S.IsBlocked(t) {
									return false
								}
							}
						}
						if all {
							return true
						}
						return (c.rBlocked && c.rdl > ck.now) || (c.wBlocked && c.wdl > ck.now)
					})
					w.Touch()
					done = true
					for _, t := range w.S.Threads() {
						if t != clock && t != w.S.Threads()[0] && !t.Finished() {
							done = false
						}
					}
					if done {
						return
					}
					next := int64(0)
					if c.rBlocked && c.rdl > ck.now {
						next = c.rdl
					}
					if c.wBlocked && c.wdl > ck.now && (next == 0 || c.wdl < next) {
						next = c.wdl
					}
					if next == 0 {
						w.Failf("clock: quiescent without a pending deadline")
						return
					}
					ck.now = next
				}
			})
			w.Join()
			w.Touch()
			if n := h.exits[s]; n != 1 {
				w.Failf("the exit callback ran %d times", n)
			}
			if c.closed == 0 {
				w.Failf("the session ended but its connection was never closed")
			}
			if n := mgr.ConnCount(); n != 0 {
				w.Failf("the session ended but the connection count is %d", n)
			}
			if !p.stalled && p.localClose && !p.peerClose && len(p.sends) > 0 {
				if want := strings.Join(accepted, ""); string(c.peerGot) != want {
					w.Failf("Send accepted %q before the local Close but the peer received %q", want, c.peerGot)
				}
			}
			w.Obs("ended at t=%d got=%q frames=%q", ck.now, c.peerGot, h.frames[s])
		}}
}

// lengthsScenario: one frame of every length in a family (1..64, around every multiple of 1000 / 1024 /
// 1460 / 4096 up to 70 KB, powers of two +-1) is sent and flushed by a local Close: the peer receives
// exactly those bytes.  One default schedule per length (the interleavings are covered by the flush
// scenarios; this one sweeps the size axis).
func lengthsScenario() *mc.Scenario {
	set := map[int]bool{}
	for l := 1; l <= 64; l++ {
		set[l] = true
	}
	for _, unit := range []int{1000, 1024, 1460, 4096} {
		for n := 1; n*unit <= 70000; n++ {
			for d := -1; d <= 1; d++ {
				set[n*unit+d] = true
			}
		}
	}
	for k := uint(1); k <= 17; k++ {
		set[1<<k-1], set[1<<k], set[1<<k+1] = true, true, true
	}
	var lens []int
	for l := range set {
		if l > 0 {
			lens = append(lens, l)
		}
	}
	sort.Ints(lens)
	return &mc.Scenario{Name: fmt.Sprintf("session/local-close-flush/one-frame-of-each-of-%d-lengths", len(lens)), PB: [2]int{0, 0}, FB: [2]int{-1, -1}, NoStateCache: true, Horizon: 20000000,
		Main: func(w *mc.World) {
			x := newWorld(w)
			for _, l := range lens {
				c := newConn(w, "peer", false)
				s := stcp.NewSession(x.mgr, c)
				payload := make([]byte, l)
				for i := range payload {
					payload[i] = byte(i*7 + l)
				}
				s.Start()
				if err := s.Send(payload); err != nil {
					w.Failf("Send of a %d-byte frame refused: %v", l, err)
				}
				s.Close()
				vsync.BlockOn(func() bool { return x.h.exits[s] == 1 && c.closed > 0 })
				w.Touch()
				if !bytes.Equal(c.peerGot, payload) {
					w.Failf("a %d-byte frame accepted by Send before the local Close reached the peer as %d bytes (first difference at offset %d)", l, len(c.peerGot), firstDiff(c.peerGot, payload))
				}
			}
			vsync.BlockOn(func() bool {
				for _, t := range w.S.Threads() {
					if t.Lib && !t.Finished() {
						return false
					}
				}
				return true
			})
			if n := x.mgr.ConnCount(); n != 0 {
				w.Failf("all sessions ended but the connection count is %d", n)
			}
		}}
}

func firstDiff(a, b []byte) int {
	for i := 0; i < len(a) && i < len(b); i++ {
		if a[i] != b[i] {
			return i
		}
	}
	if len(a) < len(b) {
		return len(a)
	}
	return len(b)
}

// mgrOptionsScenario: timeouts given to one manager do not reach another one (all ordered pairs of
// {default, read 5 s / write 2 s, read 7 s} managers); the timeouts are read off the deadlines that a
// session of each manager arms on a timed connection at virtual time 0.
func mgrOptionsScenario() *mc.Scenario {
	return &mc.Scenario{Name: "constructors/manager-timeouts-do-not-leak", PB: [2]int{0, 0}, FB: [2]int{-1, -1}, NoStateCache: true, ProcessState: true,
		Main: func(w *mc.World) {
			ck := &tclock{w: w}
			vtime.NowFn = func() time.Time { return clockBase.Add(time.Duration(ck.now) * time.Second) }
			type cfgT struct {
				name   string
				opts   []stcp.MOption
				rd, wr int64
			}
			cfgs := []cfgT{
				{"default", nil, 20, 8},
				{"read=5s,write=2s", []stcp.MOption{stcp.WithReadTimeout(5 * time.Second), stcp.WithWriteTimeout(2 * time.Second)}, 5, 2},
				{"read=7s", []stcp.MOption{stcp.WithReadTimeout(7 * time.Second)}, 7, 8},
			}
			probe := func(c cfgT, after string) {
				h := &handler{w: w, exits: map[*stcp.Session]int{}, frames: map[*stcp.Session][]byte{}}
				mgr := stcp.NewSessionMgr(h, c.opts...)
				tc := &tconn{w: w, ck: ck}
				s := stcp.NewSession(mgr, tc)
				s.Start()
				_ = s.Send([]byte("x"))
				// wait until the receive loop is parked in Read and the byte has been written
				vsync.BlockOn(func() bool { return tc.rBlocked && len(tc.peerGot) == 1 })
				w.Touch()
				if tc.rdl != c.rd || tc.wdl != c.wr {
					w.Failf("a manager built with %s%s arms read/write deadlines %d s/%d s ahead, configured %d s/%d s", c.name, after, tc.rdl, tc.wdl, c.rd, c.wr)
				}
				s.Close()
				vsync.BlockOn(func() bool { return h.exits[s] == 1 })
			}
			for _, a := range cfgs {
				for _, b := range cfgs {
					probe(a, "")
					probe(b, " (after one built with "+a.name+")")
				}
			}
			vsync.BlockOn(func() bool {
				for _, t := range w.S.Threads() {
					if t.Lib && !t.Finished() {
						return false
					}
				}
				return true
			})
		}}
}

// ---- the request/response ("echo") manager behind the same accept loop ----

type echoH struct {
	w      *mc.World
	served int
	ended  int
}

func (h *echoH) RunEcho(s *stcp.Echo) {
	var b [1]byte
	_ = s.Read(b[:])
	h.w.Touch()
	h.served++
	s.Close()
	s.ReleaseRef()
	h.w.Touch()
	h.ended++
}

func echoAcceptScenario(nconn int, max int32, pb, fb [2]int) *mc.Scenario {
	return &mc.Scenario{Name: fmt.Sprintf("accept-echo/conns=%d/max=%d", nconn, max), PB: pb, FB: fb,
		Main: func(w *mc.World) {
			eh := &echoH{w: w}
			mgr := stcp.NewEchoMgr(eh)
			x := &world{w: w, max: max, count: mgr.ConnCount}
			w.Data["x"] = x
			srv := stcp.NewTCPSrv("fake", mgr)
			ln := &listener{w: w, ch: make(chan net.Conn, 4)}
			var conns []*conn
			for i := 0; i < nconn; i++ {
				conns = append(conns, newConn(w, fmt.Sprintf("peer%d", i), false))
			}
			w.Go("acceptor", func() { _ = stcp.VerifLoopAccept(srv, ln, stcp.WithMaxConn(max)) })
			w.Go("dialer", func() {
				for _, c := range conns {
					vsync.BeforeSend(ln.ch)
					ln.ch <- c
				}
				vsync.Close(ln.ch)
			})
			for i, c := range conns {
				c := c
				w.Go(fmt.Sprintf("peer%d", i), func() {
					vsync.BeforeSend(c.in)
					c.in <- []byte{'a'}
				})
			}
			w.Join()
			vsync.BlockOn(func() bool {
				for _, t := range w.S.Threads() {
					if t.Lib && !t.Finished() {
						return false
					}
				}
				return true
			})
			w.Touch()
			for i, c := range conns {
				if c.closed == 0 {
					w.Failf("connection %d was neither served to its end nor closed on accept", i)
				}
			}
			if eh.served != eh.ended {
				w.Failf("%d echo sessions started serving, %d ended", eh.served, eh.ended)
			}
			if n := mgr.ConnCount(); n != 0 {
				w.Failf("every connection is finished but the connection count is %d", n)
			}
			w.Obs("served=%d of %d", eh.served, nconn)
		},
		Invariant: countInvariant}
}

func scenarios() []*mc.Scenario {
	scs := []*mc.Scenario{mgrOptionsScenario(), lengthsScenario()}
	// flush before local close
	for k := 0; k <= 3; k++ {
		scs = append(scs, sessScenario(sessProg{name: fmt.Sprintf("local-close-flush/sends=%d", k), sessions: 1, sends: []string{"ab", "c", "def"}[:k], localClose: true, flush: true, pb: [2]int{3, 4}}))
	}
	scs = append(scs, sessScenario(sessProg{name: "local-close-flush/three-sub-slices-of-one-array", sessions: 1, shared: true, sends: []string{"AAAA", "BBBB", "CCCC"}, localClose: true, flush: true, pb: [2]int{2, 3}}))
	scs = append(scs, sessScenario(sessProg{name: "local-close-flush/sends=2/peer-also-writes", sessions: 1, sends: []string{"ab", "c"}, localClose: true, peerFrames: "xy", flush: true, pb: [2]int{2, 3}}))
	scs = append(scs,
		sessScenario(sessProg{name: "late-start/send-send-close-then-start", sessions: 1, lateStart: true, sends: []string{"ab", "c"}, localClose: true, flush: true, pb: [2]int{3, 4}}),
		sessScenario(sessProg{name: "late-start/close-then-start/peer-writes", sessions: 1, lateStart: true, localClose: true, peerFrames: "x", flush: true, pb: [2]int{3, 4}}))
	// every terminating event, alone and in combination, with one (two) injected faults
	scs = append(scs,
		sessScenario(sessProg{name: "peer-close", sessions: 1, sends: []string{"ab"}, peerFrames: "x", peerClose: true, pb: [2]int{3, 4}}),
		sessScenario(sessProg{name: "handler-panic", sessions: 1, sends: []string{"ab"}, peerFrames: "xP", pb: [2]int{3, 4}}),
		sessScenario(sessProg{name: "handler-panic-vs-local-close", sessions: 1, sends: []string{"ab"}, localClose: true, peerFrames: "P", pb: [2]int{3, 4}}),
		sessScenario(sessProg{name: "peer-close-vs-local-close", sessions: 1, sends: []string{"ab", "c"}, localClose: true, peerFrames: "x", peerClose: true, pb: [2]int{2, 3}}),
		sessScenario(sessProg{name: "faults/read-write-error-or-timeout", sessions: 1, sends: []string{"ab", "c"}, peerFrames: "xy", peerClose: true, faults: true, pb: [2]int{2, 3}, dev: [2]int{1, 2}}),
		sessScenario(sessProg{name: "faults/with-local-close", sessions: 1, sends: []string{"ab"}, localClose: true, peerFrames: "x", faults: true, pb: [2]int{2, 3}, dev: [2]int{1, 2}}),
		sessScenario(sessProg{name: "faults/with-handler-panic", sessions: 1, sends: []string{"ab"}, peerFrames: "P", faults: true, pb: [2]int{2, 3}, dev: [2]int{1, 2}}),
		sessScenario(sessProg{name: "two-sessions/local-close+peer-close", sessions: 2, sends: []string{"ab"}, localClose: true, peerFrames: "x", peerClose: true, pb: [2]int{1, 1}, fb: [2]int{4, 7}}),
		sessScenario(sessProg{name: "two-sessions/faults", sessions: 2, sends: []string{"ab"}, peerFrames: "x", peerClose: true, faults: true, pb: [2]int{1, 1}, dev: [2]int{1, 1}, fb: [2]int{3, 5}}),
	)
	// deadlines on a virtual clock: read timeout, write timeout to a peer that does not read, heartbeats
	scs = append(scs,
		timedScenario(timedProg{name: "silent-peer/read-timeout", sends: []string{"ab"}, freeTicks: 2, pb: [2]int{2, 3}}),
		timedScenario(timedProg{name: "peer-frames-then-silent", sends: []string{"ab"}, peerFrames: "xy", freeTicks: 2, pb: [2]int{2, 3}}),
		timedScenario(timedProg{name: "stalled-peer/write-timeout", stalled: true, sends: []string{"ab", "c"}, freeTicks: 2, pb: [2]int{2, 3}}),
		timedScenario(timedProg{name: "stalled-peer/heartbeats-while-write-pending", stalled: true, sends: []string{"ab"}, peerFrames: "xyz", freeTicks: 2, pb: [2]int{2, 3}}),
		timedScenario(timedProg{name: "stalled-peer/local-close-with-unflushable-data", stalled: true, sends: []string{"ab"}, localClose: true, peerFrames: "xy", freeTicks: 1, pb: [2]int{2, 3}}),
		timedScenario(timedProg{name: "local-close-flush/timed", sends: []string{"ab", "c"}, localClose: true, peerFrames: "x", freeTicks: 1, pb: [2]int{2, 3}}),
	)
	scs = append(scs,
		acceptScenario(1, 1, [2]int{2, 3}, [2]int{0, 0}),
		acceptScenario(2, 1, [2]int{1, 2}, [2]int{4, 6}),
		acceptScenario(2, 2, [2]int{1, 2}, [2]int{4, 6}),
		acceptScenario(3, 1, [2]int{1, 1}, [2]int{3, 5}),
		acceptScenario(3, 2, [2]int{1, 1}, [2]int{3, 5}),
		echoAcceptScenario(1, 1, [2]int{2, 3}, [2]int{0, 0}),
		echoAcceptScenario(2, 1, [2]int{2, 3}, [2]int{4, 6}),
		echoAcceptScenario(3, 1, [2]int{1, 2}, [2]int{3, 5}),
		echoAcceptScenario(3, 2, [2]int{1, 2}, [2]int{3, 5}),
	)
	return scs
}

func main() {
	r := ev.Start("C16")
	r.Rule("every interleaving (stated preemption / free-choice bounds, every select resolution) of the two session goroutines with local Send/Close, a peer that writes frames and may close, a read handler that may panic, and explorer-chosen injected faults (read error/timeout, write error/timeout; budget 1 quick / 2 thorough) over a fake net.Conn built from scheduler-visible channels; the accept loop over a fake listener with 1-3 connections and maximum 1-2, for the session manager and for the echo manager; oracles: exit callback exactly once per session, connection closed, both goroutines finished (else deadlock), connection count back to zero, never negative, never above the maximum at any scheduling decision, surplus connections closed on accept, bytes accepted by Send before a local Close reach the peer completely and in order (also when the payloads are sub-slices of one caller-owned array, which the session must not write into)")
	r.Assume("real kernel TCP is replaced by a fake net.Conn whose Read blocks on a channel and wakes on Close; deadlines are no-ops and timeouts are injected as explorer choices", "the accept loop is entered through the overlay hook VerifLoopAccept (LoopStart minus net.Listen)")
	mc.Main(r, scenarios())
}
