// C20: tex scalar wrappers — round trips and exact-or-error decoding (engine I).
package main

import (
	"encoding/json"
	"fmt"
	"math"
	"math/big"
	"reflect"
	"regexp"
	"strings"
	"sync"
	"time"

	jsoniter "github.com/json-iterator/go"
	"github.com/pinealctx/neptune/tex"

	"verifh/ev"
	"verifh/seq"
)

// ---------- denotation of a JSON scalar token ----------

type kind int

const (
	kStr kind = iota
	kNum
	kNull
	kTrue
	kOther
)

func classify(tok string) (kind, string) {
	switch {
	case tok == "null":
		return kNull, ""
	case tok == "true" || tok == "false":
		return kTrue, ""
	case len(tok) >= 2 && tok[0] == '"' && tok[len(tok)-1] == '"':
		var s string
		if json.Unmarshal([]byte(tok), &s) == nil {
			return kStr, s
		}
		return kOther, ""
	default:
		return kNum, tok
	}
}

var intRe = regexp.MustCompile(`^[+-]?[0-9]+$`)

// denotedInt: the integer the token denotes, or nil if it denotes none.
func denotedInt(k kind, body string) *big.Int {
	switch k {
	case kStr:
		if !intRe.MatchString(body) {
			return nil
		}
		v, ok := new(big.Int).SetString(strings.TrimPrefix(body, "+"), 10)
		if !ok {
			return nil
		}
		return v
	case kNum:
		r, ok := new(big.Rat).SetString(body)
		if !ok || !r.IsInt() {
			return nil
		}
		return new(big.Int).Set(r.Num())
	}
	return nil
}

// ---------- decoders under test ----------

type decoder struct {
	name string
	// dec decodes tok and returns (value as big.Int, extra printable, err)
	dec      func(tok []byte) (*big.Int, error)
	min, max *big.Int
	emptyOK  bool
}

var (
	minI64 = big.NewInt(math.MinInt64)
	maxI64 = big.NewInt(math.MaxInt64)
	maxU64 = new(big.Int).SetUint64(math.MaxUint64)
	zero   = big.NewInt(0)
)

var intDecoders = []decoder{
	{"JsInt64", func(b []byte) (*big.Int, error) {
		var v tex.JsInt64 = 77
		err := v.UnmarshalJSON(b)
		return big.NewInt(int64(v)), err
	}, minI64, maxI64, true},
	{"JsUInt64", func(b []byte) (*big.Int, error) {
		var v tex.JsUInt64 = 77
		err := v.UnmarshalJSON(b)
		return new(big.Int).SetUint64(uint64(v)), err
	}, zero, maxU64, true},
	{"UnixStamp", func(b []byte) (*big.Int, error) {
		var v tex.UnixStamp = 77
		err := v.UnmarshalJSON(b)
		return big.NewInt(int64(v)), err
	}, minI64, maxI64, true},
	{"JsUnixTime", func(b []byte) (*big.Int, error) {
		v := tex.JsUnixTime(time.Unix(77, 0))
		err := v.UnmarshalJSON(b)
		return big.NewInt(time.Time(v).Unix()), err
	}, big.NewInt(-62135596800), big.NewInt(253402300799), true},
	{"JsNanoTime", func(b []byte) (*big.Int, error) {
		v := tex.JsNanoTime(time.Unix(0, 77))
		err := v.UnmarshalJSON(b)
		return big.NewInt(time.Time(v).UnixNano()), err
	}, minI64, maxI64, true},
}

func checkInt(c *seq.Ctx, d *decoder, tok string) {
	k, body := classify(tok)
	got, err := func() (g *big.Int, e error) {
		defer func() {
			if r := recover(); r != nil {
				e = fmt.Errorf("PANIC %v", r)
			}
		}()
		return d.dec([]byte(tok))
	}()
	class := "err"
	bad, sig := "", ""
	if err != nil {
		if strings.HasPrefix(err.Error(), "PANIC") {
			bad = fmt.Sprintf("%s.UnmarshalJSON(%s) panicked: %v", d.name, tok, err)
			sig = d.name + " panics"
		}
	} else {
		class = "ok"
		want := denotedInt(k, body)
		switch {
		case k == kStr && body == "" && got.Sign() == 0:
			class = "empty->0"
		case k == kNull && got.Cmp(big.NewInt(77)) == 0:
			class = "null-noop"
		case k == kNull && got.Sign() == 0:
			class = "null->0"
		case want == nil:
			bad = fmt.Sprintf("%s.UnmarshalJSON(%s) succeeded with %v but the token denotes no integer", d.name, tok, got)
			sig = d.name + " accepts " + tokClass(k, body) + " token that denotes no integer"
		case want.Cmp(got) != 0:
			bad = fmt.Sprintf("%s.UnmarshalJSON(%s) = %v, the token denotes %v", d.name, tok, got, want)
			sig = d.name + " mis-decodes " + tokClass(k, body) + " token"
		}
	}
	c.Case(d.name+"/"+tokClass(k, body)+"/"+class, bad, sig, func() interface{} { return map[string]string{"decoder": d.name, "token": tok} })
}

func tokClass(k kind, body string) string {
	switch k {
	case kStr:
		return "quoted"
	case kNum:
		return "bare-number"
	case kNull:
		return "null"
	case kTrue:
		return "bool"
	}
	return "other"
}

// ---------- JsByte ----------

func denotedBytes(k kind, body string) ([]byte, bool) {
	if k != kStr {
		return nil, false
	}
	if body == "" {
		return nil, true
	}
	var out []byte
	for _, p := range strings.Split(body, "/") {
		if !intRe.MatchString(p) {
			return nil, false
		}
		v, _ := new(big.Int).SetString(strings.TrimPrefix(p, "+"), 10)
		if v.Sign() < 0 || v.Cmp(big.NewInt(255)) > 0 {
			return nil, false
		}
		out = append(out, byte(v.Int64()))
	}
	return out, true
}

func checkJsByte(c *seq.Ctx, tok string) {
	k, body := classify(tok)
	var v tex.JsByte
	err := func() (e error) {
		defer func() {
			if r := recover(); r != nil {
				e = fmt.Errorf("PANIC %v", r)
			}
		}()
		return v.UnmarshalJSON([]byte(tok))
	}()
	class, bad, sig := "err", "", ""
	if err != nil {
		if strings.HasPrefix(err.Error(), "PANIC") {
			bad, sig = fmt.Sprintf("JsByte.UnmarshalJSON(%s) panicked: %v", tok, err), "JsByte panics"
		}
	} else {
		class = "ok"
		want, ok := denotedBytes(k, body)
		switch {
		case k == kNull && len(v) == 0:
			class = "null->empty"
		case k == kNum:
			// a bare number may be read as a one-element list of exactly that value, nothing else
			n := denotedInt(k, body)
			if n == nil || !n.IsInt64() || n.Int64() < 0 || n.Int64() > 255 || len(v) != 1 || int64(v[0]) != n.Int64() {
				bad = fmt.Sprintf("JsByte.UnmarshalJSON(%s) succeeded with %v", tok, []byte(v))
				sig = "JsByte mis-decodes bare-number token"
			}
		case !ok:
			bad = fmt.Sprintf("JsByte.UnmarshalJSON(%s) succeeded with %v but the token denotes no byte list", tok, []byte(v))
			sig = "JsByte accepts " + tokClass(k, body) + " token that denotes no byte list (element out of 0..255 or junk)"
		case !reflect.DeepEqual([]byte(v), want) && !(len(v) == 0 && len(want) == 0):
			bad = fmt.Sprintf("JsByte.UnmarshalJSON(%s) = %v, the token denotes %v", tok, []byte(v), want)
			sig = "JsByte mis-decodes " + tokClass(k, body) + " token"
		}
	}
	if bad == "" {
		// the same token decoded into a receiver that already holds a (longer) list gives the same result
		used := tex.JsByte{200, 201, 202, 203, 204, 205, 206, 207, 208, 209, 210, 211}
		err2 := func() (e error) {
			defer func() {
				if r := recover(); r != nil {
					e = fmt.Errorf("PANIC %v", r)
				}
			}()
			return used.UnmarshalJSON([]byte(tok))
		}()
		switch {
		case (err == nil) != (err2 == nil):
			bad, sig = fmt.Sprintf("JsByte.UnmarshalJSON(%s): %v into an empty receiver, %v into a receiver that already held 12 elements", tok, err, err2), "JsByte result depends on what the receiver held before"
		case err == nil && k != kNull && !(len(v) == 0 && len(used) == 0) && !reflect.DeepEqual([]byte(v), []byte(used)):
			bad, sig = fmt.Sprintf("JsByte.UnmarshalJSON(%s) = %v into an empty receiver but %v into a receiver that already held 12 elements", tok, []byte(v), []byte(used)), "JsByte result depends on what the receiver held before"
		}
	}
	c.Case("JsByte/"+tokClass(k, body)+"/"+class, bad, sig, func() interface{} { return map[string]string{"decoder": "JsByte", "token": tok} })
}

// ---------- Duration ----------

func checkDuration(c *seq.Ctx, tok string) {
	k, body := classify(tok)
	var v tex.Duration = 77
	err := func() (e error) {
		defer func() {
			if r := recover(); r != nil {
				e = fmt.Errorf("PANIC %v", r)
			}
		}()
		return v.UnmarshalJSON([]byte(tok))
	}()
	class, bad, sig := "err", "", ""
	if err != nil {
		if strings.HasPrefix(err.Error(), "PANIC") {
			bad, sig = fmt.Sprintf("Duration.UnmarshalJSON(%s) panicked: %v", tok, err), "Duration panics"
		}
	} else {
		class = "ok"
		switch k {
		case kStr:
			want, perr := time.ParseDuration(body)
			if perr != nil {
				bad, sig = fmt.Sprintf("Duration.UnmarshalJSON(%s) succeeded with %v but the text is no duration", tok, time.Duration(v)), "Duration accepts quoted junk"
			} else if want != time.Duration(v) {
				bad, sig = fmt.Sprintf("Duration.UnmarshalJSON(%s) = %v want %v", tok, time.Duration(v), want), "Duration mis-decodes quoted token"
			}
		case kNum:
			n := denotedInt(k, body)
			okUnit := false
			if n != nil && n.IsInt64() {
				for _, u := range []time.Duration{1, time.Microsecond, time.Millisecond, time.Second, time.Minute, time.Hour} {
					p := new(big.Int).Mul(n, big.NewInt(int64(u)))
					if p.IsInt64() && p.Int64() == int64(v) {
						okUnit = true
					}
				}
			}
			if !okUnit {
				bad, sig = fmt.Sprintf("Duration.UnmarshalJSON(%s) succeeded with %v, which is not that number in any unit", tok, time.Duration(v)), "Duration mis-decodes bare-number token"
			}
		case kNull:
			if v != 77 && v != 0 {
				bad, sig = fmt.Sprintf("Duration.UnmarshalJSON(null) = %v", time.Duration(v)), "Duration mis-decodes null"
			}
		default:
			bad, sig = fmt.Sprintf("Duration.UnmarshalJSON(%s) succeeded", tok), "Duration accepts bool"
		}
	}
	c.Case("Duration/"+tokClass(k, body)+"/"+class, bad, sig, func() interface{} { return map[string]string{"decoder": "Duration", "token": tok} })
}

// ---------- token enumeration ----------

var alphabet = []byte{'"', '0', '1', '9', '-', '+', '.', 'e', '/', ' ', 'x', '2', '5', '6'}

func enumTokens(maxLen int, alpha []byte, f func(tok string)) {
	buf := make([]byte, maxLen)
	var rec func(n, l int)
	rec = func(n, l int) {
		if n == l {
			if json.Valid(buf[:l]) && buf[0] != ' ' && buf[l-1] != ' ' {
				f(string(buf[:l]))
			}
			return
		}
		for _, ch := range alpha {
			buf[n] = ch
			rec(n+1, l)
		}
	}
	for l := 1; l <= maxLen; l++ {
		rec(0, l)
	}
}

var specialTokens = func() []string {
	nums := []string{"0", "-0", "1", "-1", "255", "256", "-129", "65536", "9223372036854775807", "9223372036854775808", "-9223372036854775808", "-9223372036854775809",
		"18446744073709551615", "18446744073709551616", "99999999999999999999999", "0012", "+12", "12abc", "1.0", "1.5", "1e2", "1E2", "-1e-2", "1/2/3", "0/255", "1/256", "1/-1", "1//2", "/", "1/", "/1",
		"1h", "1h0m", "-5s", "0", "101", "1.5s", "10 s"}
	var out []string
	for _, n := range nums {
		out = append(out, `"`+n+`"`)
		if json.Valid([]byte(n)) {
			out = append(out, n)
		}
	}
	return append(out, "null", "true", "false", `""`, `" "`)
}()

// ---------- round trips ----------

func roundTrips(c *seq.Ctx) {
	i64s := []int64{0, 1, -1, 9, 10, 255, 256, math.MaxInt32, math.MinInt32, math.MaxInt64, math.MinInt64, math.MaxInt64 - 1, math.MinInt64 + 1, 1 << 53, -(1 << 53), 1234567890123456789}
	// every decimal and binary magnitude (text forms change with the magnitude: unit bands of durations,
	// digit counts, float-exactness limits), both signs
	{
		seen := map[int64]bool{}
		for _, v := range i64s {
			seen[v] = true
		}
		add := func(v int64) {
			for _, x := range []int64{v, -v} {
				if !seen[x] {
					seen[x] = true
					i64s = append(i64s, x)
				}
			}
		}
		p10 := int64(1)
		for k := 0; k <= 18; k++ {
			add(p10)
			add(p10 - 1)
			add(p10 + 1)
			add(p10 + p10/2)
			add(p10*9 + p10/10*9)
			if k < 18 {
				p10 *= 10
			}
		}
		for k := uint(1); k < 63; k++ {
			add(1 << k)
			add(1<<k - 1)
			add(1<<k + 1)
		}
		for _, u := range []int64{int64(time.Microsecond), int64(time.Millisecond), int64(time.Second), int64(time.Minute), int64(time.Hour), 24 * int64(time.Hour)} {
			add(u)
			add(u - 1)
			add(u + 1)
			add(u + u/2)
			add(u*59 + u/1000*999)
		}
	}
	u64s := []uint64{0, 1, 9, 10, math.MaxUint32, math.MaxInt64, math.MaxInt64 + 1, math.MaxUint64, math.MaxUint64 - 1, 1 << 53}
	type codec struct {
		name string
		un   func(b []byte, v interface{}) error
		ma   func(v interface{}) ([]byte, error)
	}
	codecs := []codec{
		{"direct", nil, nil},
		{"encoding/json", json.Unmarshal, json.Marshal},
		{"jsoniter", jsoniter.ConfigCompatibleWithStandardLibrary.Unmarshal, jsoniter.ConfigCompatibleWithStandardLibrary.Marshal},
	}
	rt := func(name string, codecName string, val interface{}, bad string) {
		sig := ""
		if bad != "" {
			sig = name + " round trip fails via " + codecName
		}
		c.Case("rt/"+name+"/"+codecName+"/"+fmt.Sprint(bad == ""), bad, sig, func() interface{} {
			return map[string]interface{}{"type": name, "codec": codecName, "value": fmt.Sprint(val)}
		})
	}
	for _, cd := range codecs {
		for _, v := range i64s {
			{
				x := tex.JsInt64(v)
				var y tex.JsInt64
				var err error
				var b []byte
				if cd.ma == nil {
					b, err = x.MarshalJSON()
					if err == nil {
						err = y.UnmarshalJSON(b)
					}
				} else {
					b, err = cd.ma(struct{ V tex.JsInt64 }{x})
					var out struct{ V tex.JsInt64 }
					if err == nil {
						err = cd.un(b, &out)
					}
					y = out.V
				}
				bad := ""
				if err != nil || x != y {
					bad = fmt.Sprintf("JsInt64 %d -> %s -> %d err=%v", v, b, y, err)
				}
				rt("JsInt64", cd.name, v, bad)
			}
			{
				x := tex.UnixStamp(v)
				var y tex.UnixStamp
				var err error
				var b []byte
				if cd.ma == nil {
					b, err = x.MarshalJSON()
					if err == nil {
						err = y.UnmarshalJSON(b)
					}
				} else {
					b, err = cd.ma(struct{ V tex.UnixStamp }{x})
					var out struct{ V tex.UnixStamp }
					if err == nil {
						err = cd.un(b, &out)
					}
					y = out.V
				}
				bad := ""
				if err != nil || x != y {
					bad = fmt.Sprintf("UnixStamp %d -> %s -> %d err=%v", v, b, y, err)
				}
				rt("UnixStamp", cd.name, v, bad)
			}
			// nano time: every int64 is a valid UnixNano
			{
				x := tex.JsNanoTime(time.Unix(0, v))
				var y tex.JsNanoTime
				var err error
				var b []byte
				if cd.ma == nil {
					b, err = x.MarshalJSON()
					if err == nil {
						err = y.UnmarshalJSON(b)
					}
				} else {
					b, err = cd.ma(struct{ V tex.JsNanoTime }{x})
					var out struct{ V tex.JsNanoTime }
					if err == nil {
						err = cd.un(b, &out)
					}
					y = out.V
				}
				bad := ""
				if err != nil || !time.Time(x).Equal(time.Time(y)) {
					bad = fmt.Sprintf("JsNanoTime %d -> %s -> %v err=%v", v, b, time.Time(y).UnixNano(), err)
				}
				rt("JsNanoTime", cd.name, v, bad)
			}
			// durations
			{
				x := tex.Duration(v)
				var y tex.Duration
				var err error
				var b []byte
				if cd.ma == nil {
					b, err = x.MarshalJSON()
					if err == nil {
						err = y.UnmarshalJSON(b)
					}
				} else {
					b, err = cd.ma(struct{ V tex.Duration }{x})
					var out struct{ V tex.Duration }
					if err == nil {
						err = cd.un(b, &out)
					}
					y = out.V
				}
				bad := ""
				if err != nil || x != y {
					bad = fmt.Sprintf("Duration %d -> %s -> %d err=%v", v, b, y, err)
				}
				rt("Duration", cd.name, v, bad)
			}
		}
		for _, v := range u64s {
			x := tex.JsUInt64(v)
			var y tex.JsUInt64
			var err error
			var b []byte
			if cd.ma == nil {
				b, err = x.MarshalJSON()
				if err == nil {
					err = y.UnmarshalJSON(b)
				}
			} else {
				b, err = cd.ma(struct{ V tex.JsUInt64 }{x})
				var out struct{ V tex.JsUInt64 }
				if err == nil {
					err = cd.un(b, &out)
				}
				y = out.V
			}
			bad := ""
			if err != nil || x != y {
				bad = fmt.Sprintf("JsUInt64 %d -> %s -> %d err=%v", v, b, y, err)
			}
			rt("JsUInt64", cd.name, v, bad)
		}
		// unix-second times around 0, year boundaries, far past/future representable by Unix()
		secs := []int64{0, 1, -1, 59, 60, 86399, 86400, 946684799, 946684800, 1704067199, 1704067200, 4102444800, -62135596800, 253402300799, 1 << 31, -(1 << 31)}
		for _, v := range secs {
			x := tex.JsUnixTime(time.Unix(v, 0))
			var y tex.JsUnixTime
			var err error
			var b []byte
			if cd.ma == nil {
				b, err = x.MarshalJSON()
				if err == nil {
					err = y.UnmarshalJSON(b)
				}
			} else {
				b, err = cd.ma(struct{ V tex.JsUnixTime }{x})
				var out struct{ V tex.JsUnixTime }
				if err == nil {
					err = cd.un(b, &out)
				}
				y = out.V
			}
			bad := ""
			if err != nil || !time.Time(x).Equal(time.Time(y)) {
				bad = fmt.Sprintf("JsUnixTime %d -> %s -> %v err=%v", v, b, time.Time(y).Unix(), err)
			}
			rt("JsUnixTime", cd.name, v, bad)
		}
		// byte lists: empty, every single byte, pairs of boundaries
		var lists [][]byte
		lists = append(lists, nil, []byte{})
		for i := 0; i < 256; i++ {
			lists = append(lists, []byte{byte(i)})
		}
		for _, a := range []byte{0, 1, 9, 10, 99, 100, 127, 128, 255} {
			for _, b := range []byte{0, 1, 9, 10, 99, 100, 127, 128, 255} {
				lists = append(lists, []byte{a, b}, []byte{a, b, a})
			}
		}
		for _, l := range lists {
			x := tex.JsByte(l)
			var y tex.JsByte
			var err error
			var b []byte
			if cd.ma == nil {
				b, err = x.MarshalJSON()
				if err == nil {
					err = y.UnmarshalJSON(b)
				}
				if err == nil {
					var z tex.JsByte
					if e2 := z.FromString(x.ToString()); e2 != nil || !(len(z) == 0 && len(l) == 0 || reflect.DeepEqual([]byte(z), l)) {
						err = fmt.Errorf("FromString(ToString) = %v, %v", []byte(z), e2)
					}
				}
			} else {
				b, err = cd.ma(struct{ V tex.JsByte }{x})
				var out struct{ V tex.JsByte }
				if err == nil {
					err = cd.un(b, &out)
				}
				y = out.V
			}
			bad := ""
			if err != nil || !(len(y) == 0 && len(l) == 0 || reflect.DeepEqual([]byte(y), l)) {
				bad = fmt.Sprintf("JsByte %v -> %s -> %v err=%v", l, b, []byte(y), err)
			}
			rt("JsByte", cd.name, l, bad)
		}
	}
	// SQL adapters
	for _, v := range i64s {
		{
			x := tex.UnixNano2Time(time.Unix(0, v))
			val, err := x.Value()
			var y tex.UnixNano2Time
			if err == nil {
				err = y.Scan(val)
			}
			bad := ""
			if err != nil || !time.Time(x).Equal(time.Time(y)) {
				bad = fmt.Sprintf("UnixNano2Time %d -> %v -> %v err=%v", v, val, time.Time(y).UnixNano(), err)
			}
			rt("UnixNano2Time", "sql", v, bad)
		}
	}
	for _, v := range []int64{0, 1, -1, 86400, 946684800, 4102444800, -62135596800, 253402300799, 1 << 31, -(1 << 31), 1 << 40} {
		{
			x := tex.Unix2Time(time.Unix(v, 0))
			val, err := x.Value()
			var y tex.Unix2Time
			if err == nil {
				err = y.Scan(val)
			}
			bad := ""
			if err != nil || !time.Time(x).Equal(time.Time(y)) {
				bad = fmt.Sprintf("Unix2Time %d -> %v -> %v err=%v", v, val, time.Time(y).Unix(), err)
			}
			rt("Unix2Time", "sql", v, bad)
		}
		{
			x := tex.UnixStamp(v)
			val, err := x.Value()
			var y tex.UnixStamp
			if err == nil {
				err = y.Scan(val)
			}
			bad := ""
			if err != nil || x != y {
				bad = fmt.Sprintf("UnixStamp(sql) %d -> %v -> %d err=%v", v, val, y, err)
			}
			rt("UnixStamp", "sql", v, bad)
		}
		{
			x := tex.SQLTime2Unix(v)
			val, err := x.Value()
			var y tex.SQLTime2Unix
			if err == nil {
				err = y.Scan(val)
			}
			bad := ""
			if err != nil || x != y {
				bad = fmt.Sprintf("SQLTime2Unix %d -> %v -> %d err=%v", v, val, y, err)
			}
			rt("SQLTime2Unix", "sql", v, bad)
		}
	}
	// base64: all byte strings of length 0..2 over 5 bytes, plus lengths 3,4
	bs := []byte{0, 1, 0x7f, 0x80, 0xff}
	var blists [][]byte
	blists = append(blists, []byte{})
	for _, a := range bs {
		blists = append(blists, []byte{a})
		for _, b := range bs {
			blists = append(blists, []byte{a, b}, []byte{a, b, a}, []byte{a, b, b, a})
		}
	}
	for _, l := range blists {
		x := tex.Base64Bytes(l)
		val, err := x.Value()
		var y, z tex.Base64Bytes
		if err == nil {
			err = y.Scan(val)
		}
		if err == nil {
			err = z.Scan([]byte(val.(string)))
		}
		bad := ""
		if err != nil || string(y) != string(l) || string(z) != string(l) {
			bad = fmt.Sprintf("Base64Bytes %v -> %v -> %v / %v err=%v", l, val, []byte(y), []byte(z), err)
		}
		rt("Base64Bytes", "sql", l, bad)
	}
	// hex / base-32 integer strings
	for _, v := range i64s {
		a, e1 := tex.HexI64(tex.I64Hex(v))
		b, e2 := tex.HexI64V2(tex.I64HexV2(v))
		bad := ""
		if e1 != nil || e2 != nil || a != v || b != v {
			bad = fmt.Sprintf("hex int64 %d -> %q/%q -> %d/%d err=%v/%v", v, tex.I64Hex(v), tex.I64HexV2(v), a, b, e1, e2)
		}
		rt("HexI64", "hex", v, bad)
	}
	for _, v := range u64s {
		a, e1 := tex.HexU64(tex.U64Hex(v))
		b, e2 := tex.HexU64V2(tex.U64HexV2(v))
		bad := ""
		if e1 != nil || e2 != nil || a != v || b != v {
			bad = fmt.Sprintf("hex uint64 %d -> %q/%q -> %d/%d err=%v/%v", v, tex.U64Hex(v), tex.U64HexV2(v), a, b, e1, e2)
		}
		rt("HexU64", "hex", v, bad)
	}
}

func hexStrings(c *seq.Ctx) {
	alpha := []byte("019afgvwz-+_ xAF")
	var rec func(pre string, n int)
	check := func(s string) {
		type fn struct {
			name   string
			base   int
			signed bool
			call   func(string) (*big.Int, error)
		}
		fns := []fn{
			{"HexI64", 16, true, func(s string) (*big.Int, error) { v, e := tex.HexI64(s); return big.NewInt(v), e }},
			{"HexU64", 16, false, func(s string) (*big.Int, error) { v, e := tex.HexU64(s); return new(big.Int).SetUint64(v), e }},
			{"HexI64V2", 32, true, func(s string) (*big.Int, error) { v, e := tex.HexI64V2(s); return big.NewInt(v), e }},
			{"HexU64V2", 32, false, func(s string) (*big.Int, error) { v, e := tex.HexU64V2(s); return new(big.Int).SetUint64(v), e }},
		}
		for _, f := range fns {
			got, err := f.call(s)
			class, bad, sig := "err", "", ""
			// a decoder is a function of its text: the same answer after a refused and after another valid text
			_, _ = f.call("g~" + s)
			_, _ = f.call("7f")
			if got2, err2 := f.call(s); (err == nil) != (err2 == nil) || (err == nil && got.Cmp(got2) != 0) {
				c.Case("hexstr/"+f.name+"/repeat", fmt.Sprintf("%s(%q) = %v/%v at first, %v/%v after two other conversions", f.name, s, got, err, got2, err2), f.name+" answer depends on earlier conversions", func() interface{} { return map[string]string{"fn": f.name, "input": s} })
			}
			if err == nil {
				class = "ok"
				want, ok := new(big.Int).SetString(s, f.base)
				if !ok || strings.ContainsAny(s, "_ ") {
					bad, sig = fmt.Sprintf("%s(%q) = %v but the text is no base-%d integer", f.name, s, got, f.base), f.name+" accepts junk"
				} else if want.Cmp(got) != 0 {
					bad, sig = fmt.Sprintf("%s(%q) = %v want %v", f.name, s, got, want), f.name+" mis-decodes"
				}
			}
			c.Case("hexstr/"+f.name+"/"+class, bad, sig, func() interface{} { return map[string]string{"fn": f.name, "input": s} })
		}
	}
	rec = func(pre string, n int) {
		check(pre)
		if n == 0 {
			return
		}
		for _, ch := range alpha {
			rec(pre+string(ch), n-1)
		}
	}
	rec("", 3)
	for _, s := range []string{"7fffffffffffffff", "8000000000000000", "-8000000000000000", "-8000000000000001", "ffffffffffffffff", "10000000000000000", "7vvvvvvvvvvvv", "8000000000000", "fvvvvvvvvvvvv", "g000000000000"} {
		check(s)
	}
	// full-width texts: every leading digit of either case (and a sign) in front of the tails that
	// decide overflow, at the widths where 64 bits are exactly filled or exceeded
	const digits = "0123456789abcdefghijklmnopqrstuvABCDEFGHIJKLMNOPQRSTUV"
	for _, w := range []int{11, 12, 13, 15, 16} {
		for _, tail := range []string{strings.Repeat("0", w), strings.Repeat("v", w), strings.Repeat("V", w), strings.Repeat("f", w), strings.Repeat("F", w), strings.Repeat("0", w-1) + "1", "Vv" + strings.Repeat("0", w-2)} {
			for i := 0; i < len(digits); i++ {
				for _, sign := range []string{"", "-", "+"} {
					check(sign + string(digits[i]) + tail)
				}
			}
		}
	}
}

// refB64: what an unpadded standard-alphabet base64 text denotes (CR and LF are ignored, as the
// standard library's decoder documents); ok=false if the text is not such a text.
func refB64(s string) ([]byte, bool) {
	const std = "ABCDEFGHIJKLMNOPQRSTUVWXYZabcdefghijklmnopqrstuvwxyz0123456789+/"
	var sx []int
	for i := 0; i < len(s); i++ {
		if s[i] == '\r' || s[i] == '\n' {
			continue
		}
		k := strings.IndexByte(std, s[i])
		if k < 0 {
			return nil, false
		}
		sx = append(sx, k)
	}
	if len(sx)%4 == 1 {
		return nil, false
	}
	out := make([]byte, 0, len(sx)*6/8)
	acc, nb := 0, 0
	for _, k := range sx {
		acc = acc<<6 | k
		nb += 6
		if nb >= 8 {
			nb -= 8
			out = append(out, byte(acc>>uint(nb)))
			acc &= 1<<uint(nb) - 1
		}
	}
	return out, true
}

// base64Texts: every text up to the length bound over an alphabet with payload characters, padding,
// url-alphabet characters, blanks and line breaks, scanned as string and as []byte
func base64Texts(c *seq.Ctx) {
	alpha := []byte("QUg/+9=\n\r -_")
	maxLen := 5
	if !c.Quick() {
		maxLen = 6
	}
	check := func(txt string) {
		want, ok := refB64(txt)
		for vi, v := range []interface{}{txt, []byte(txt)} {
			var y tex.Base64Bytes
			err := y.Scan(v)
			used := tex.Base64Bytes("previous content of the receiver, longer than the text")
			if err2 := used.Scan(v); (err == nil) != (err2 == nil) || (err == nil && string(used) != string(y)) {
				c.Case(fmt.Sprintf("b64/%d/receiver", vi), fmt.Sprintf("Base64Bytes.Scan(%q as %T) = %v/%v into an empty receiver, %v/%v into a used one", txt, v, []byte(y), err, []byte(used), err2), "Base64Bytes result depends on what the receiver held before", func() interface{} { return txt })
			}
			class, bad, sig := "err", "", ""
			if err == nil {
				class = "ok"
				if !ok {
					bad, sig = fmt.Sprintf("Base64Bytes.Scan(%q as %T) = %v but the text is no unpadded base64 text", txt, v, []byte(y)), "Base64Bytes accepts junk"
				} else if string(y) != string(want) {
					bad, sig = fmt.Sprintf("Base64Bytes.Scan(%q as %T) = %v, the text denotes %v", txt, v, []byte(y), want), "Base64Bytes mis-decodes"
				}
			} else if ok && !strings.ContainsAny(txt, "\r\n") {
				bad, sig = fmt.Sprintf("Base64Bytes.Scan(%q as %T) fails (%v) on a well-formed text denoting %v", txt, v, err, want), "Base64Bytes refuses its own form"
			}
			c.Case(fmt.Sprintf("b64/%d/%s", vi, class), bad, sig, func() interface{} { return map[string]interface{}{"text": txt, "as": fmt.Sprintf("%T", v)} })
		}
	}
	var rec func(pre string, n int)
	rec = func(pre string, n int) {
		if c.Expired() {
			return
		}
		check(pre)
		if n == 0 {
			return
		}
		for _, ch := range alpha {
			rec(pre+string(ch), n-1)
		}
	}
	rec("", maxLen)
	// long wrapped texts: 76-column line breaks as MIME encoders emit them
	for n := 0; n <= 130; n++ {
		raw := make([]byte, n)
		for i := range raw {
			raw[i] = byte(i*37 + n)
		}
		v, _ := tex.Base64Bytes(raw).Value()
		enc := v.(string)
		for _, w := range []int{1, 3, 4, 76} {
			var sb strings.Builder
			for i := 0; i < len(enc); i += w {
				e := i + w
				if e > len(enc) {
					e = len(enc)
				}
				sb.WriteString(enc[i:e])
				sb.WriteString("\r\n")
			}
			check(sb.String())
		}
	}
	var y tex.Base64Bytes
	for _, v := range []interface{}{nil, 5, int64(5), 1.5, true, []int{1}} {
		err := y.Scan(v)
		bad := ""
		if err == nil {
			bad = fmt.Sprintf("Base64Bytes.Scan(%T) succeeds", v)
		}
		c.Case("b64/other-type", bad, "Base64Bytes accepts a non-text value", func() interface{} { return fmt.Sprintf("%T", v) })
	}
}

// junkInDigits: quoted digit strings of every length 1..21 with ONE byte replaced, at every position, by
// every printable non-digit ASCII character (and a few bytes outside ASCII) - decoders with word-at-a-time
// or table-driven fast paths must refuse each of them.
var (
	junkTokens []string
	junkOnce   sync.Once
)

func junkInDigits() []string {
	junkOnce.Do(buildJunk)
	return junkTokens
}

func buildJunk() {
	var junk []byte
	for b := byte(0x20); b < 0x7f; b++ {
		if (b < '0' || b > '9') && b != '"' && b != '\\' {
			junk = append(junk, b)
		}
	}
	junk = append(junk, 0x7f, 0x80, 0xb0, 0xff, 0x00, 0x09)
	for n := 1; n <= 21; n++ {
		digits := []byte("123456789012345678901"[:n])
		for pos := 0; pos < n; pos++ {
			for _, j := range junk {
				t := append([]byte(nil), digits...)
				t[pos] = j
				junkTokens = append(junkTokens, "\""+string(t)+"\"")
			}
		}
	}
}

func main() {
	r := ev.Start("C20")
	r.Rule("round trips over boundary value sets through the types' own methods, encoding/json and jsoniter; exact-or-error: every string up to the stated length over the alphabet \" 0 1 9 2 5 6 - + . e / space x that json.Valid accepts, plus special long-digit / junk tokens and quoted digit strings of length 1..21 with one byte at every position replaced by every printable non-digit character, fed to every UnmarshalJSON and compared with an arbitrary-precision reading of the token (slice-typed receivers also pre-filled: the result must not depend on what the receiver held); every text up to length 5 (quick) / 6 (thorough) over payload / padding / url-alphabet / blank / CR / LF characters plus line-wrapped encodings of 0..130 bytes scanned into Base64Bytes as string and as []byte against a bitwise reference decoder; distinct = (decoder, token class, outcome class)")
	r.Assume("a token 'denotes' an integer iff it is a quoted [+-]?digits string or an integral bare JSON number; an empty string may decode to zero; null may be a no-op")
	maxLen := r.Pick(6, 7)
	fams := []seq.Family{
		{Name: "roundtrip", Run: roundTrips},
		{Name: "hex-strings", Run: hexStrings},
		{Name: "base64-texts", Run: base64Texts},
	}
	for i := range intDecoders {
		d := &intDecoders[i]
		fams = append(fams, seq.Family{Name: "tokens/" + d.name, Run: func(c *seq.Ctx) {
			for _, t := range specialTokens {
				checkInt(c, d, t)
			}
			for _, t := range junkInDigits() {
				checkInt(c, d, t)
			}
			enumTokens(maxLen, alphabet, func(tok string) {
				if c.Expired() {
					return
				}
				checkInt(c, d, tok)
			})
		}})
	}
	fams = append(fams, seq.Family{Name: "tokens/JsByte", Run: func(c *seq.Ctx) {
		for _, t := range specialTokens {
			checkJsByte(c, t)
		}
		enumTokens(maxLen, alphabet, func(tok string) {
			if c.Expired() {
				return
			}
			checkJsByte(c, tok)
		})
	}})
	fams = append(fams, seq.Family{Name: "tokens/Duration", Run: func(c *seq.Ctx) {
		for _, t := range specialTokens {
			checkDuration(c, t)
		}
		dalpha := []byte{'"', '0', '1', '-', '.', 'e', 'h', 's', 'm', ' '}
		enumTokens(maxLen, dalpha, func(tok string) {
			if c.Expired() {
				return
			}
			checkDuration(c, tok)
		})
	}})
	var jobs []func()
	for _, f := range fams {
		f := f
		jobs = append(jobs, func() { seq.RunFamily(r, f) })
	}
	seq.Parallel(16, jobs)
	r.Extra("token_max_len", maxLen)
	r.Finish()
}
