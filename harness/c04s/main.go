// C04 (concurrent clause): LRU operations issued concurrently are linearizable with respect to the
// ideal LRU and leave exactly its contents (engine S, coarse and statement-level interleavings).
package main

import (
	"fmt"
	"strings"

	"github.com/pinealctx/neptune/cache"
	"github.com/pinealctx/neptune/cache/tiny"

	"verifh/ev"
	"verifh/mc"
)

type val struct{ id, size int }

func (v *val) Size() int { return v.size }

// ideal LRU (front = most recent)
type ment struct {
	k string
	v *val
	w int64
}
type mlru struct {
	ents     []ment
	capacity int64
	size     int64
	unit     bool
	evicted  int64
}

func (m *mlru) Clone() mc.LinModel { c := *m; c.ents = append([]ment(nil), m.ents...); return &c }
func (m *mlru) find(k string) int {
	for i, e := range m.ents {
		if e.k == k {
			return i
		}
	}
	return -1
}
func (m *mlru) touch(i int) { e := m.ents[i]; copy(m.ents[1:i+1], m.ents[:i]); m.ents[0] = e }
func (m *mlru) weight(v *val) int64 {
	if m.unit {
		return 1
	}
	return int64(v.size)
}
func (m *mlru) set(k string, v *val) {
	if i := m.find(k); i >= 0 {
		m.size += m.weight(v) - m.ents[i].w
		m.ents[i].v, m.ents[i].w = v, m.weight(v)
		m.touch(i)
	} else {
		m.ents = append([]ment{{k, v, m.weight(v)}}, m.ents...)
		m.size += m.weight(v)
	}
	for m.size > m.capacity {
		last := m.ents[len(m.ents)-1]
		m.ents = m.ents[:len(m.ents)-1]
		m.size -= last.w
		m.evicted++
	}
}
func (m *mlru) stats() string {
	return fmt.Sprintf("len=%d size=%d cap=%d evictions=%d", len(m.ents), m.size, m.capacity, m.evicted)
}
func (m *mlru) keys() string {
	var o []string
	for _, e := range m.ents {
		o = append(o, fmt.Sprintf("%s:%d", e.k, e.v.id))
	}
	return strings.Join(o, ",")
}

type api struct {
	set         func(k string, v *val)
	setIfAbsent func(k string, v *val)
	get, peek   func(k string) (*val, bool)
	del         func(k string) bool
	items       func() string
	size        func() (size, capacity int64)
	stats       func() string
	clear       func()
	keys        func() string
}

func fromCache(c *cache.LRUCache) *api {
	tv := func(v cache.Value, ok bool) (*val, bool) {
		if v == nil {
			return nil, ok
		}
		return v.(*val), ok
	}
	return &api{set: func(k string, v *val) { c.Set(k, v) }, setIfAbsent: func(k string, v *val) { c.SetIfAbsent(k, v) },
		get: func(k string) (*val, bool) { return tv(c.Get(k)) }, peek: func(k string) (*val, bool) { return tv(c.Peek(k)) }, del: func(k string) bool { return c.Delete(k) },
		items: func() string {
			var o []string
			for _, it := range c.Items() {
				o = append(o, fmt.Sprintf("%v:%d", it.Key, it.Value.(*val).id))
			}
			return strings.Join(o, ",")
		}, size: func() (int64, int64) { return c.Size(), c.Capacity() },
		stats: func() string {
			l, sz, cp, ev := c.Stats()
			return fmt.Sprintf("len=%d size=%d cap=%d evictions=%d", l, sz, cp, ev)
		}, clear: c.Clear, keys: func() string { return fmt.Sprint(c.Keys()) }}
}

func fromTiny(c *tiny.LRUCache) *api {
	tv := func(v interface{}, ok bool) (*val, bool) {
		if v == nil {
			return nil, ok
		}
		return v.(*val), ok
	}
	return &api{set: func(k string, v *val) { c.Set(k, v) }, setIfAbsent: func(k string, v *val) { c.SetIfAbsent(k, v) },
		get: func(k string) (*val, bool) { return tv(c.Get(k)) }, peek: func(k string) (*val, bool) { return tv(c.Peek(k)) }, del: func(k string) bool { return c.Delete(k) },
		items: func() string {
			var o []string
			for _, it := range c.Items() {
				o = append(o, fmt.Sprintf("%v:%d", it.Key, it.Value.(*val).id))
			}
			return strings.Join(o, ",")
		}, size: func() (int64, int64) { return c.Size(), c.Capacity() },
		stats: func() string {
			l, sz, cp, ev := c.Stats()
			return fmt.Sprintf("len=%d size=%d cap=%d evictions=%d", l, sz, cp, ev)
		}, clear: c.Clear, keys: func() string { return fmt.Sprint(c.Keys()) }}
}

type opSpec struct {
	kind string // set get peek del
	k    string
	size int
}

func vs(v *val, ok bool) string {
	if v == nil {
		return fmt.Sprintf("nil,%v", ok)
	}
	return fmt.Sprintf("#%d,%v", v.id, ok)
}

func scenario(name string, unit bool, capacity int64, mk func() *api, seed []opSpec, threads [][]opSpec, fine bool, pb [2]int) *mc.Scenario {
	nm := fmt.Sprintf("%s/%s/fine=%v", name, describe(threads), fine)
	return &mc.Scenario{Name: nm, PB: pb, Fine: fine, Main: func(w *mc.World) {
		a := mk()
		init := &mlru{capacity: capacity, unit: unit}
		nid := 0
		for _, s := range seed {
			nid++
			v := &val{nid, s.size}
			a.set(s.k, v)
			init.set(s.k, v)
		}
		var clk mc.Clock
		var evs []mc.LinEvent
		for ti, ops := range threads {
			ti, ops := ti, ops
			w.Go(fmt.Sprintf("T%d", ti), func() {
				for oi, o := range ops {
					o := o
					w.Touch()
					inv := clk.Tick()
					nid++
					v := &val{1000 + ti*10 + oi, o.size}
					var got string
					switch o.kind {
					case "set":
						a.set(o.k, v)
					case "get":
						got = vs(a.get(o.k))
					case "peek":
						got = vs(a.peek(o.k))
					case "del":
						got = fmt.Sprint(a.del(o.k))
					case "stats":
						got = a.stats()
					case "keys":
						got = a.keys()
					case "clear":
						a.clear()
					}
					w.Touch()
					ret := clk.Tick()
					evs = append(evs, mc.LinEvent{Inv: inv, Ret: ret, Desc: fmt.Sprintf("%s(%s)=%s", o.kind, o.k, got), Step: func(lm mc.LinModel) bool {
						m := lm.(*mlru)
						switch o.kind {
						case "set":
							m.set(o.k, v)
							return true
						case "stats": // one atomic snapshot of the four numbers
							return got == m.stats()
						case "keys":
							var ks []interface{}
							for _, e := range m.ents {
								ks = append(ks, e.k)
							}
							return got == fmt.Sprint(ks)
						case "clear":
							m.ents, m.size = nil, 0
							return true
						case "get", "peek":
							i := m.find(o.k)
							if i < 0 {
								return got == "nil,false"
							}
							want := vs(m.ents[i].v, true)
							if o.kind == "get" {
								m.touch(i)
							}
							return got == want
						default:
							i := m.find(o.k)
							if i >= 0 {
								m.size -= m.ents[i].w
								m.ents = append(m.ents[:i:i], m.ents[i+1:]...)
							}
							return got == fmt.Sprint(i >= 0)
						}
					}})
					w.Obs("%s(%s)=%s", o.kind, o.k, got)
				}
			})
		}
		w.Join()
		w.Touch()
		final := a.items()
		sz, cp := a.size()
		if sz > cp {
			w.Failf("summed size %d exceeds capacity %d after concurrent operations", sz, cp)
		}
		if !mc.Linearizable(init, evs, func(lm mc.LinModel) bool { return lm.(*mlru).keys() == final }) {
			var d []string
			for _, e := range evs {
				d = append(d, fmt.Sprintf("[%d,%d]%s", e.Inv, e.Ret, e.Desc))
			}
			w.Failf("no linearization of the concurrent calls %v explains their results and the final contents [%s] against the ideal LRU", d, final)
		}
		w.Obs("final=%s", final)
	}}
}

func describe(threads [][]opSpec) string {
	var ts []string
	for _, t := range threads {
		var os []string
		for _, o := range t {
			os = append(os, o.kind+"("+o.k+")")
		}
		ts = append(ts, strings.Join(os, ","))
	}
	return strings.Join(ts, "|")
}

func main() {
	r := ev.Start("C04")
	S := func(k string, size int) opSpec { return opSpec{"set", k, size} }
	G := func(k string) opSpec { return opSpec{"get", k, 0} }
	P := func(k string) opSpec { return opSpec{"peek", k, 0} }
	D := func(k string) opSpec { return opSpec{"del", k, 0} }
	St := opSpec{"stats", "", 0}
	Ks := opSpec{"keys", "", 0}
	Cl := opSpec{"clear", "", 0}
	progs := [][][]opSpec{
		{{St}, {S("c", 2)}, {D("a")}},
		{{St, St}, {S("c", 1), S("d", 2)}},
		{{Ks}, {S("c", 1)}, {G("a")}},
		{{Cl}, {G("a")}, {S("c", 1), St}},
		{{Cl, S("a", 1)}, {G("b"), Ks}},
		{{S("c", 1)}, {G("a")}, {S("a", 2)}},
		{{S("c", 1), G("b")}, {G("a"), S("d", 1)}},
		{{D("a")}, {S("a", 1)}, {P("a"), G("b")}},
		{{S("c", 2)}, {S("d", 2)}, {G("a")}},
		{{S("a", 2)}, {S("a", 1)}, {G("a")}},
		{{S("a", 3), D("b")}, {S("b", 2), G("a")}},
	}
	var scs []*mc.Scenario
	for _, p := range progs {
		for _, fine := range []bool{false, true} {
			pb := [2]int{3, 4}
			if fine {
				pb = [2]int{2, 2}
			}
			scs = append(scs,
				scenario("cache.LRUCache/cap=3", false, 3, func() *api { return fromCache(cache.NewLRUCache(3)) }, []opSpec{S("a", 1), S("b", 1)}, p, fine, pb),
				scenario("tiny.LRUCache/cap=2", true, 2, func() *api { return fromTiny(tiny.NewLRUCache(2)) }, []opSpec{S("a", 1), S("b", 1)}, p, fine, pb))
		}
	}
	mc.Main(r, scs)
}
