// C06: ID generators — unique, strictly increasing under any clock history (engine H; the layout
// globals are process-wide, so every layout runs in its own worker process).
package main

import (
	"fmt"
	"os"
	"time"

	"github.com/pinealctx/neptune/idgen/nano"
	"github.com/pinealctx/neptune/idgen/snowflake"
	"github.com/pinealctx/neptune/zverif/vtime"

	"verifh/ev"
	"verifh/mc"
)

type layout struct {
	epoch    int64
	nodeBits uint8
	lowest   bool
	order    int // which permutation of the Setup options establishes the layout
}

func layouts() []layout {
	var o []layout
	for _, ep := range []int64{1609430400000, 946684800000} {
		for _, nb := range []uint8{8, 9, 10} {
			for _, lo := range []bool{false, true} {
				o = append(o, layout{ep, nb, lo, 0})
				if lo && ep == 946684800000 {
					o = append(o, layout{ep, nb, lo, 1}, layout{ep, nb, lo, 2}) // node-at-lowest given before / between the other options
				}
			}
		}
	}
	// "any epoch": before 1970 with and without a millisecond fraction, 1970 itself, a fraction after 1970
	for _, ep := range []int64{-1500, -86400123, -3600000, 0, 1609430400123} {
		o = append(o, layout{ep, 10, false, 0}, layout{ep, 8, true, 3})
	}
	return o
}

func (l layout) String() string {
	if l.order != 0 {
		return fmt.Sprintf("epoch=%d/nodeBits=%d/nodeAtLowest=%v/option-order=%d", l.epoch, l.nodeBits, l.lowest, l.order)
	}
	return fmt.Sprintf("epoch=%d/nodeBits=%d/nodeAtLowest=%v", l.epoch, l.nodeBits, l.lowest)
}

func compose(l layout, t, node, step int64) int64 {
	shift := uint(l.nodeBits) + 12
	if l.lowest {
		return t<<shift | step<<uint(l.nodeBits) | node
	}
	return t<<shift | node<<12 | step
}

var hardDeltas = []int64{-1000, -1, 0, 1, 2, 100000}

type vio struct {
	sig, what string
	replay    interface{}
}

// hard node: all delta/restart histories up to depth from several seeded start states
func hardNode(r *ev.Run, l layout, depth int) ev.Part {
	t0 := time.Now()
	var clock int64 // ms since unix epoch
	restoreNow := snowflake.VerifSetNow(func() time.Time { return time.Unix(clock/1000, (clock%1000)*1e6) })
	defer restoreNow()
	nodeMax := int64(1)<<l.nodeBits - 1
	var execs, steps int64
	outcomes := map[string]bool{}
	exhaustive := true
	nAlpha := len(hardDeltas) + 1
	// start timestamps: small, and - where the timestamp field is wider than 41 bits - beyond 2^41 and
	// 2^42 ms (still before 2262, where time.UnixNano ends)
	t0s := []int64{1000000}
	width := 63 - uint(l.nodeBits) - 12
	if width >= 42 {
		t0s = append(t0s, 1<<41+12345)
	}
	if width >= 43 {
		t0s = append(t0s, 1<<42+999)
	}
	for _, T0 := range t0s {
		for _, node := range []int64{0, 1, nodeMax} {
			if T0 != 1000000 && node == 1 {
				continue
			}
			for _, step0 := range []int64{0, 1, 4094, 4095} {
				min := compose(l, T0, node, step0)
				hist := make([]int, depth)
				var rec func(d int)
				run := func(n int) {
					nd, err := snowflake.NewNode(node, min)
					if err != nil {
						r.Violate(ev.Violation{Signature: "hardnode: NewNode refuses a valid node", Scenario: "hardnode/" + l.String(), What: err.Error()})
						return
					}
					last := min
					var names []string
					for i := 0; i < n; i++ {
						a := hist[i]
						if a == len(hardDeltas) {
							names = append(names, "restart(lastID)")
							nd, _ = snowflake.NewNode(node, last)
							continue
						}
						curT, _, _ := snowflake.IDFields(last)
						now := curT + hardDeltas[a]
						clock = l.epoch + now
						names = append(names, fmt.Sprintf("Generate@clock=last%+d", hardDeltas[a]))
						id := nd.Generate()
						steps++
						tf, nf, sf := snowflake.IDFields(id)
						bad, sig := "", ""
						switch {
						case id <= last:
							bad, sig = fmt.Sprintf("id %d (t=%d step=%d) is not greater than the previous id %d", id, tf, sf, last), "HardNode id not strictly increasing"
						case nf != node:
							bad, sig = fmt.Sprintf("id %d carries node %d, configured %d", id, nf, node), "HardNode node field wrong"
						case tf < now:
							bad, sig = fmt.Sprintf("id %d carries timestamp %d earlier than the clock reading %d", id, tf, now), "HardNode timestamp earlier than the clock"
						}
						if i == n-1 {
							outcomes[fmt.Sprintf("d%+d/carry=%v/reset=%v", hardDeltas[a], tf > curT && now <= curT, sf == 0)] = true
						}
						if bad != "" {
							r.Violate(ev.Violation{Signature: "hardnode: " + sig, Scenario: "hardnode/" + l.String(), What: fmt.Sprintf("node=%d start timestamp=%d step=%d history %v: %s", node, T0, step0, names, bad),
								Replay: map[string]interface{}{"layout": l.String(), "node": node, "start_step": step0, "history": names}})
							return
						}
						last = id
					}
				}
				rec = func(d int) {
					if d > 0 {
						execs++
						run(d)
					}
					if d == depth {
						return
					}
					if execs&1023 == 0 && r.Expired() {
						exhaustive = false
						return
					}
					for a := 0; a < nAlpha; a++ {
						// only the last op of a prefix is new: run(d) replays the prefix (cheap), which keeps it stateless
						hist[d] = a
						rec(d + 1)
					}
				}
				rec(0)
			}
		}
	}
	return ev.Part{Name: "hardnode/" + l.String(), Evaluations: execs, States: execs, Transitions: steps, Outcomes: int64(len(outcomes)), Exhaustive: exhaustive, Blocked: true,
		Bound: fmt.Sprintf("all histories of length <= %d over %d clock deltas + restart, 3 nodes x 4 seeded start steps", depth, len(hardDeltas)), WallS: time.Since(t0).Seconds()}
}

// hardNodeBursts: histories whose letters are BURSTS of 4096/4097 calls at one clock reading (each
// burst wraps the step counter once more), single calls and restarts - the second and third wrap, a
// wrap right after a restart, a wrap while the clock is behind.
func hardNodeBursts(r *ev.Run, l layout, depth int) ev.Part {
	t0 := time.Now()
	var clock int64
	restoreNow := snowflake.VerifSetNow(func() time.Time { return time.Unix(clock/1000, (clock%1000)*1e6) })
	defer restoreNow()
	type letter struct {
		name  string
		calls int
		delta int64
	}
	alpha := []letter{{"burst4096@last+0", 4096, 0}, {"burst4097@last-5", 4097, -5}, {"burst4095@last+0", 4095, 0}, {"gen@last+1", 1, 1}, {"gen@last-1000", 1, -1000}, {"restart(lastID)", 0, 0}}
	var execs, steps int64
	outcomes := map[string]bool{}
	exhaustive := true
	node := int64(1)
	for _, step0 := range []int64{0, 4095} {
		min := compose(l, 1000000, node, step0)
		hist := make([]int, depth)
		run := func(n int) {
			nd, _ := snowflake.NewNode(node, min)
			last := min
			var names []string
			for i := 0; i < n; i++ {
				a := alpha[hist[i]]
				names = append(names, a.name)
				if a.calls == 0 {
					nd, _ = snowflake.NewNode(node, last)
					continue
				}
				curT, _, _ := snowflake.IDFields(last)
				now := curT + a.delta
				clock = l.epoch + now
				wraps := 0
				for c := 0; c < a.calls; c++ {
					id := nd.Generate()
					steps++
					tf, nf, sf := snowflake.IDFields(id)
					bad := ""
					switch {
					case id <= last:
						bad = fmt.Sprintf("call %d of the burst: id %d (t=%d step=%d) is not greater than the previous id %d", c+1, id, tf, sf, last)
					case nf != node:
						bad = fmt.Sprintf("call %d of the burst: id %d carries node %d, configured %d", c+1, id, nf, node)
					case tf < now:
						bad = fmt.Sprintf("call %d of the burst: id %d carries timestamp %d earlier than the clock reading %d", c+1, id, tf, now)
					}
					if bad != "" {
						r.Violate(ev.Violation{Signature: "hardnode: burst history breaks monotonicity / node / clock bound", Scenario: "hardnode-bursts/" + l.String(), What: fmt.Sprintf("start step=%d history %v: %s", step0, names, bad),
							Replay: map[string]interface{}{"layout": l.String(), "start_step": step0, "history": names}})
						return
					}
					if sf == 0 {
						wraps++
					}
					last = id
				}
				if i == n-1 {
					outcomes[fmt.Sprintf("%s/wraps=%d", a.name, wraps)] = true
				}
			}
		}
		var rec func(d int)
		rec = func(d int) {
			if d > 0 {
				execs++
				run(d)
			}
			if d == depth {
				return
			}
			if r.Expired() {
				exhaustive = false
				return
			}
			for a := range alpha {
				hist[d] = a
				rec(d + 1)
			}
		}
		rec(0)
	}
	return ev.Part{Name: "hardnode-bursts/" + l.String(), Evaluations: execs, States: execs, Transitions: steps, Outcomes: int64(len(outcomes)), Exhaustive: exhaustive, Blocked: true,
		Bound: fmt.Sprintf("all histories of length <= %d over bursts of 4095/4096/4097 calls at one clock reading, single calls and restarts, 2 seeded start steps", depth), WallS: time.Since(t0).Seconds()}
}

type monoOp struct {
	delta int64
	stall int
}

var monoOps = []monoOp{{0, 0}, {0, 2}, {1, 0}, {2, 0}, {50, 0}, {1, 2}}

func monoNode(r *ev.Run, l layout, depth int) ev.Part {
	t0 := time.Now()
	var clock int64 = l.epoch + 5000000 // ms
	var pending int                     // readings for which the clock stays put
	readings := 0
	vtime.NowFn = func() time.Time {
		readings++
		if pending > 0 {
			pending--
		} else if pending == 0 {
			pending = -1
		} else {
			clock++ // a spinning caller sees the clock advance
		}
		return time.Unix(clock/1000, (clock%1000)*1e6)
	}
	defer func() { vtime.NowFn = nil }()
	nodeMax := int64(1)<<l.nodeBits - 1
	var execs, steps int64
	outcomes := map[string]bool{}
	exhaustive := true
	for _, node := range []int64{0, nodeMax} {
		for _, warm := range []int{0, 4093, 4094} {
			hist := make([]int, depth)
			run := func(n int) {
				clock = l.epoch + 5000000
				pending = 0
				nd, err := snowflake.NewMonoNode(node)
				if err != nil {
					r.Violate(ev.Violation{Signature: "mononode: NewMonoNode refuses a valid node", Scenario: "mononode/" + l.String(), What: err.Error()})
					return
				}
				var last int64 = -1
				gen := func(o monoOp, name string, names []string) bool {
					clock += o.delta
					pending = o.stall
					before := readings
					id := nd.Generate()
					steps++
					_, nf, sf := snowflake.IDFields(id)
					bad, sig := "", ""
					switch {
					case id <= last:
						bad, sig = fmt.Sprintf("id %d (step %d) is not greater than the previous id %d", id, sf, last), "MonoNode id not strictly increasing"
					case nf != node:
						bad, sig = fmt.Sprintf("id %d carries node %d, configured %d", id, nf, node), "MonoNode node field wrong"
					}
					outcomes[fmt.Sprintf("%s/spun=%v/step0=%v", name, readings-before > 1, sf == 0)] = true
					if bad != "" {
						r.Violate(ev.Violation{Signature: "mononode: " + sig, Scenario: "mononode/" + l.String(), What: fmt.Sprintf("node=%d warm-up=%d frozen calls, then %v: %s", node, warm, names, bad),
							Replay: map[string]interface{}{"layout": l.String(), "node": node, "warmup": warm, "history": names}})
						return false
					}
					last = id
					return true
				}
				for i := 0; i < warm; i++ {
					if !gen(monoOp{0, 0}, "warm", nil) {
						return
					}
				}
				var names []string
				for i := 0; i < n; i++ {
					o := monoOps[hist[i]]
					nm := fmt.Sprintf("Generate@clock+%d,stall=%d", o.delta, o.stall)
					names = append(names, nm)
					if !gen(o, nm, names) {
						return
					}
				}
			}
			var rec func(d int)
			rec = func(d int) {
				if d == depth {
					execs++
					run(d)
					return
				}
				if execs&63 == 0 && r.Expired() {
					exhaustive = false
					return
				}
				for a := range monoOps {
					hist[d] = a
					rec(d + 1)
				}
			}
			dd := depth
			if warm > 0 && dd > 3 {
				dd = 3 // each execution replays the 4094-call warm-up
			}
			depthSave := depth
			depth = dd
			rec(0)
			depth = depthSave
		}
	}
	return ev.Part{Name: "mononode/" + l.String(), Evaluations: execs, States: execs, Transitions: steps, Outcomes: int64(len(outcomes)), Exhaustive: exhaustive, Blocked: true,
		Bound: fmt.Sprintf("all histories of length %d (3 after a 4093/4094-call frozen-clock warm-up) over %d non-decreasing clock moves with 0/2 stalled readings inside the spin loop", depth, len(monoOps)), WallS: time.Since(t0).Seconds()}
}

type ider interface {
	GenID() int64
	GenIDByTS(int64) int64
}

func nanoPart(r *ev.Run, depth int) ev.Part {
	t0 := time.Now()
	deltas := []int64{-5, 0, 1, 2, 1000}
	var clock int64
	vtime.NowFn = func() time.Time { return time.Unix(0, clock) }
	defer func() { vtime.NowFn = nil }()
	var execs, steps int64
	outcomes := map[string]bool{}
	for _, mk := range []struct {
		name string
		f    func(cur int64) ider
	}{{"UnixNanoID", func(c int64) ider { return nano.NewUnixNanoID(c) }}, {"UnixNanoNoLockID", func(c int64) ider { return nano.NewUnixNanoNoLockID(c) }}} {
		for _, cur0 := range []int64{0, 100, 1 << 60, -50} {
			for _, viaClock := range []bool{false, true} {
				hist := make([]int, depth)
				var rec func(d int)
				run := func(n int) {
					g := mk.f(cur0)
					last := cur0
					first := true
					var names []string
					for i := 0; i < n; i++ {
						ts := last + deltas[hist[i]]
						var id int64
						if viaClock {
							clock = ts
							id = g.GenID()
							names = append(names, fmt.Sprintf("GenID@clock=last%+d", deltas[hist[i]]))
						} else {
							id = g.GenIDByTS(ts)
							names = append(names, fmt.Sprintf("GenIDByTS(last%+d)", deltas[hist[i]]))
						}
						steps++
						outcomes[fmt.Sprintf("%s/d%+d/bumped=%v", mk.name, deltas[hist[i]], id != ts)] = true
						if id <= last && !(first && id > cur0) {
							r.Violate(ev.Violation{Signature: "nano: " + mk.name + " id not strictly increasing", Scenario: "nano", What: fmt.Sprintf("%s(current=%d) %v: id %d is not greater than the previous id %d", mk.name, cur0, names, id, last),
								Replay: map[string]interface{}{"generator": mk.name, "current": cur0, "history": names}})
							return
						}
						first = false
						last = id
					}
				}
				rec = func(d int) {
					if d == depth {
						execs++
						run(d)
						return
					}
					for a := range deltas {
						hist[d] = a
						rec(d + 1)
					}
				}
				rec(0)
			}
		}
	}
	return ev.Part{Name: "nano", Evaluations: execs, States: execs, Transitions: steps, Outcomes: int64(len(outcomes)), Exhaustive: true, Blocked: true,
		Bound: fmt.Sprintf("all ts histories of length %d over 5 deltas, 4 start values, GenIDByTS and GenID (virtual clock), locked and lock-free generator", depth), WallS: time.Since(t0).Seconds()}
}

// configure establishes the layout through the PUBLIC Setup call of a fresh process, the options given
// in the order chosen by the layout (the same layout must result whatever the order), and verifies
// what was established through the read-only hook.
func configure(r *ev.Run, l layout) func() {
	opts := []snowflake.Option{snowflake.UseEpoch(time.UnixMilli(l.epoch)), snowflake.UseNodeMode(snowflake.NodeBitsMode(l.nodeBits))}
	if l.lowest {
		opts = append(opts, snowflake.NodeAtLowest())
	}
	perms := [][]int{{0, 1, 2}, {2, 1, 0}, {1, 2, 0}, {2, 0, 1}}
	var ordered []snowflake.Option
	for _, i := range perms[l.order%len(perms)] {
		if i < len(opts) {
			ordered = append(ordered, opts[i])
		}
	}
	if l.order >= 2 {
		// two Setup calls instead of one, and the generators are used under the intermediate layout
		snowflake.Setup(ordered[:1]...)
		if n, err := snowflake.NewNode(1, 0); err == nil {
			_ = n.Generate()
			_, _, _ = snowflake.IDFields(n.Generate())
		}
		snowflake.Setup(ordered[1:]...)
	} else {
		snowflake.Setup(ordered...)
	}
	if e, b, lo := snowflake.VerifConfig(); e != l.epoch || b != l.nodeBits || lo != l.lowest {
		r.Violate(ev.Violation{Signature: "setup: the options do not establish the requested layout", Scenario: "setup/" + l.String(),
			What: fmt.Sprintf("Setup for %s established epoch=%d nodeBits=%d nodeAtLowest=%v", l.String(), e, b, lo)})
	}
	return func() {}
}

func main() {
	r := ev.Start("C06")
	r.Rule("burst histories (letters = 4095/4096/4097 calls at one clock reading, single calls, restarts: second and third step wrap, wrap after restart, wrap while the clock is behind); every history of clock readings (relative to the generator's current millisecond: -1000,-1,0,+1,+2,+100000; restart with the last id) up to the stated length on the real HardNode from seeded start states at the step wrap (step 0,1,4094,4095); MonoNode under a virtual non-decreasing clock incl. stalled readings inside its spin loop and a 4094-call frozen-clock warm-up; UnixNanoID over ts histories; for every layout (node bits 8/9/10 x node-at-lowest x two epochs, plus five more epochs - before 1970 with and without a millisecond fraction, 1970, a fraction after 1970 - on two layouts) in its own process, the layout established through the public Setup call with the options in different orders and split over one or two calls; distinct = (delta, carry/reset/bump) classes")
	r.Assume("clock readings stay inside the timestamp width", "MonoNode is only given non-decreasing clocks (it reads Go's monotonic clock)")
	ls := layouts()
	if r.Shard != "" {
		var k int
		fmt.Sscanf(r.Shard, "%d", &k)
		if k < len(ls) {
			l := ls[k]
			restore := configure(r, l)
			r.AddPart(hardNode(r, l, r.Pick(5, 7)))
			r.AddPart(hardNodeBursts(r, l, r.Pick(4, 5)))
			r.AddPart(monoNode(r, l, r.Pick(4, 6)))
			restore()
			r.Sample(map[string]interface{}{"layout": l.String(), "history": []string{"Generate@clock=last-1", "Generate@clock=last+0", "restart(lastID)", "Generate@clock=last-1000"}})
		} else {
			r.AddPart(nanoPart(r, r.Pick(7, 9)))
		}
		r.EmitWorker()
		return
	}
	if nd := mc.Drive(r, os.Args[0], len(ls)+1); nd != "" {
		fmt.Println("worker failure:", nd)
		r.Finish0(2)
	}
	// the concurrent clause: engine-S companion binary (harness/c06s)
	if nd := mc.DriveBin(r, os.Getenv("VERIF_SCHED_BIN")); nd != "" && r.NViolations() == 0 {
		fmt.Println("engine-S companion failed (machinery error, not a verdict):", nd)
		r.Finish0(2)
	}
	r.Finish()
}
