// C17: shard routing — total, in range, stable; sharded containers equal unsharded (engines I + H).
package main

import (
	"context"
	"fmt"
	"math"
	"reflect"
	"sort"
	"strings"

	"github.com/pinealctx/neptune/cache"
	"github.com/pinealctx/neptune/cache/tiny"
	"github.com/pinealctx/neptune/remap"
	"github.com/pinealctx/neptune/syncx/keylock"
	"github.com/pinealctx/neptune/syncx/semap"

	"verifh/ev"
	"verifh/seq"
)

type hit uint64

func (h hit) Hit() uint64 { return uint64(h) }

type bs string

func (b bs) ToBytes() []byte { return []byte(b) }

func shardCounts(quick bool) []uint64 {
	var o []uint64
	for n := uint64(1); n <= 128; n++ {
		o = append(o, n)
	}
	return append(o, 211, 509, 1024, 4093)
}

func keysFamily() []interface{} {
	var ks []interface{}
	for i := 0; i < 256; i++ {
		ks = append(ks, byte(i), int8(i))
	}
	for _, v := range []int64{0, 1, -1, 2, 72, 73, 74, 127, 128, 255, 256, math.MaxInt16, math.MinInt16, math.MaxInt32, math.MinInt32, math.MaxInt64, math.MinInt64, 1 << 40, -(1 << 40)} {
		ks = append(ks, int16(v), uint16(v), int32(v), uint32(v), int64(v), uint64(v), int(v), uint(v), hit(uint64(v)))
	}
	ks = append(ks, uint64(math.MaxUint64), uint64(math.MaxUint64-1), hit(math.MaxUint64), uint(math.MaxUint64))
	al := []byte{'a', 0x00, 0xff}
	var rec func(cur []byte, n int)
	rec = func(cur []byte, n int) {
		ks = append(ks, string(cur), append([]byte(nil), cur...), bs(cur))
		if n == 0 {
			return
		}
		for _, c := range al {
			rec(append(cur, c), n-1)
		}
	}
	rec(nil, 3)
	return ks
}

func routing(c *seq.Ctx) {
	// options of one ReMap do not reach the next one: all ordered triples of {default, 2, 3, 211} shards
	primes := []uint64{0, 2, 3, 211}
	mkr := func(p uint64) (*remap.ReMap, uint64) {
		if p == 0 {
			return remap.NewReMap(), remap.DefaultPrime
		}
		return remap.NewReMap(remap.WithPrime(p)), p
	}
	for _, a := range primes {
		for _, b := range primes {
			for _, d := range primes {
				bad := ""
				var ms []*remap.ReMap
				var ws []uint64
				for _, x := range []uint64{a, b, d} {
					m, w := mkr(x)
					ms, ws = append(ms, m), append(ws, w)
				}
				for i, m := range ms {
					if m.Numbs() != ws[i] || m.SimpleIndex(int(ws[i])+1) != 1%int(ws[i]) {
						bad = fmt.Sprintf("ReMaps built with shard counts %v (0 = default): number %d reports %d shards and routes %d to %d", []uint64{a, b, d}, i, m.Numbs(), ws[i]+1, m.SimpleIndex(int(ws[i])+1))
					}
				}
				c.Case("options/"+fmt.Sprint(bad == ""), bad, "shard-count option leaks between ReMap instances", func() interface{} { return []uint64{a, b, d} })
			}
		}
	}
	keys := keysFamily()
	for _, n := range shardCounts(c.Quick()) {
		rm := remap.NewReMap(remap.WithPrime(n))
		rm2 := remap.NewReMap(remap.WithPrime(n))
		if rm.Numbs() != n {
			c.Case("numbs", fmt.Sprintf("NewReMap(WithPrime(%d)).Numbs() = %d", n, rm.Numbs()), "Numbs differs from the configured shard count", func() interface{} { return n })
		}
		for _, k := range keys {
			for _, fn := range []struct {
				name string
				f    func(r *remap.ReMap, k interface{}) int
			}{{"SimpleIndex", (*remap.ReMap).SimpleIndex}, {"XHashIndex", (*remap.ReMap).XHashIndex}} {
				if _, isHit := k.(hit); isHit && fn.name == "XHashIndex" {
					continue // a HitGroup that is not also a Bs has no byte form: xxhash routing is not defined for it
				}
				var a, b, d int
				pan := func() (p string) {
					defer func() {
						if r := recover(); r != nil {
							p = fmt.Sprint(r)
						}
					}()
					a, b, d = fn.f(rm, k), fn.f(rm, k), fn.f(rm2, k)
					return ""
				}()
				bad, sig := "", ""
				switch {
				case pan != "":
					bad, sig = fmt.Sprintf("%s(%T %v) with %d shards panicked: %s", fn.name, k, k, n, pan), fn.name+" panics on a supported key type"
				case a < 0 || a >= int(n):
					bad, sig = fmt.Sprintf("%s(%T %v) with %d shards = %d, outside [0,%d)", fn.name, k, k, n, a, n), fn.name+" index out of range"
				case a != b || a != d:
					bad, sig = fmt.Sprintf("%s(%T %v) with %d shards is not stable: %d, %d, %d", fn.name, k, k, n, a, b, d), fn.name+" not deterministic"
				}
				if bad == "" && fn.name == "SimpleIndex" {
					// integer keys route by value modulo shards
					var want int = -1
					switch v := k.(type) {
					case byte:
						want = int(uint64(v) % n)
					case uint16:
						want = int(uint64(v) % n)
					case uint32:
						want = int(uint64(v) % n)
					case uint64:
						want = int(v % n)
					case uint:
						want = int(uint64(v) % n)
					case hit:
						want = int(uint64(v) % n)
					}
					if want >= 0 && a != want {
						bad, sig = fmt.Sprintf("SimpleIndex(%T %v) with %d shards = %d, value modulo shards is %d", k, k, n, a, want), "SimpleIndex of an unsigned integer key is not value modulo shards"
					}
				}
				c.Case(fmt.Sprintf("route/%s/%T", fn.name, k), bad, sig, func() interface{} { return fmt.Sprintf("%s(%T %v) shards=%d", fn.name, k, k, n) })
			}
		}
		// the hash partition: monotone, covers the range, onto
		y := uint64(math.MaxUint64) / n
		probes := []uint64{0, 1, 2, math.MaxUint64, math.MaxUint64 - 1}
		for k := uint64(0); k <= n; k++ {
			b := y * k
			probes = append(probes, b-1, b, b+1, b+2)
			if k == n {
				probes = append(probes, b+y/2)
			} else {
				probes = append(probes, b+y/2)
			}
		}
		sort.Slice(probes, func(i, j int) bool { return probes[i] < probes[j] })
		prev := -1
		seen := make([]bool, n)
		bad, sig := "", ""
		for _, x := range probes {
			i := rm.SearchIndex(x)
			switch {
			case i < 0 || i >= int(n):
				bad, sig = fmt.Sprintf("SearchIndex(%d) with %d shards = %d, outside [0,%d)", x, n, i, n), "SearchIndex out of range"
			case i < prev:
				bad, sig = fmt.Sprintf("SearchIndex(%d) with %d shards = %d after a smaller hash mapped to %d: partition not monotone", x, n, i, prev), "hash partition not monotone"
			case i > prev+1:
				bad, sig = fmt.Sprintf("SearchIndex(%d) with %d shards = %d jumps from %d: a shard owns no hash value among the boundary probes", x, n, i, prev), "hash partition skips a shard"
			}
			if bad != "" {
				break
			}
			seen[i] = true
			prev = i
		}
		if bad == "" {
			if rm.SearchIndex(0) != 0 || rm.SearchIndex(math.MaxUint64) != int(n)-1 {
				bad, sig = fmt.Sprintf("with %d shards SearchIndex(0)=%d SearchIndex(MaxUint64)=%d", n, rm.SearchIndex(0), rm.SearchIndex(math.MaxUint64)), "hash partition does not span the whole range"
			}
			for i, s := range seen {
				if !s && bad == "" {
					bad, sig = fmt.Sprintf("with %d shards no probed hash maps to shard %d", n, i), "hash partition skips a shard"
				}
			}
		}
		c.Case("partition", bad, sig, func() interface{} { return fmt.Sprintf("shards=%d probes=%d", n, len(probes)) })
	}
}

// ---------------- sharded vs unsharded containers ----------------

var ckeys = []interface{}{1, 74, 2, "a", "b", int64(1), uint8(1)}

func kname(k interface{}) string { return fmt.Sprintf("%T(%v)", k, k) }

type mapPair struct {
	wide, single cache.MapFacade
	n            int
}

func mapOps() []seq.Op[*mapPair] {
	var o []seq.Op[*mapPair]
	for _, k := range ckeys {
		k := k
		o = append(o, seq.Op[*mapPair]{Name: "Set(" + kname(k) + ")", Step: func(s *mapPair) (string, string) {
			s.n++
			s.wide.Set(k, valueOf(s.n))
			s.single.Set(k, valueOf(s.n))
			return "", ""
		}})
		o = append(o, seq.Op[*mapPair]{Name: "Delete(" + kname(k) + ")", Step: func(s *mapPair) (string, string) {
			s.wide.Delete(k)
			s.single.Delete(k)
			return "", ""
		}})
	}
	return o
}

// valueOf: the stored values cycle through comparable and uncomparable dynamic types (a container must
// never compare the values it stores)
func valueOf(n int) interface{} {
	switch n % 6 {
	case 0:
		return n
	case 1:
		return fmt.Sprint("s", n)
	case 2:
		return []byte{byte(n), 1}
	case 3:
		return map[string]int{"n": n}
	case 4:
		return struct{ b []int }{[]int{n}}
	}
	return nil
}

func show(v interface{}) string { return fmt.Sprintf("%T:%v", v, v) }

func mapAfter(s *mapPair) string {
	for _, k := range ckeys {
		v1, ok1 := s.wide.Get(k)
		v2, ok2 := s.single.Get(k)
		if show(v1) != show(v2) || ok1 != ok2 || s.wide.Exist(k) != s.single.Exist(k) || s.wide.Exist(k) != ok1 {
			return fmt.Sprintf("Get/Exist(%s): sharded map answers %v,%v/%v, unsharded %v,%v/%v", kname(k), v1, ok1, s.wide.Exist(k), v2, ok2, s.single.Exist(k))
		}
	}
	return ""
}

func mapKey(s *mapPair) string {
	var b strings.Builder
	for _, k := range ckeys {
		v, ok := s.single.Get(k)
		if ok {
			fmt.Fprintf(&b, "%s=%v;", kname(k), v == nil || reflect.TypeOf(v).Comparable())
		}
	}
	return b.String()
}

type ival int

func (ival) Size() int { return 1 }

type sval struct{ s []int }

func (sval) Size() int { return 1 }

type lruPair struct {
	wide   func(op string, k interface{}, v int) string
	single func(op string, k interface{}, v int) string
	n      int
	model  map[interface{}]int
}

func lruOps() []seq.Op[*lruPair] { return lruOpsK(ckeys) }

func lruOpsK(keys []interface{}) []seq.Op[*lruPair] {
	var o []seq.Op[*lruPair]
	for _, k := range keys {
		k := k
		for _, op := range []string{"Set", "Get", "Peek", "Exist", "Delete"} {
			op := op
			o = append(o, seq.Op[*lruPair]{Name: op + "(" + kname(k) + ")", Step: func(s *lruPair) (string, string) {
				s.n++
				a, b := s.wide(op, k, s.n), s.single(op, k, s.n)
				if op == "Set" {
					s.model[k] = s.n % 2
				}
				if op == "Delete" {
					delete(s.model, k)
				}
				if a != b {
					return a, fmt.Sprintf("%s(%s): sharded LRU answers %s, unsharded %s", op, kname(k), a, b)
				}
				return a, ""
			}})
		}
	}
	return o
}

func lruAfter(s *lruPair) string { return lruAfterOld(s) }

// routed: n unsharded LRUs of the per-shard capacity, keys routed by the public remap index - what
// "capacity applied per shard" means when the capacity does bind.
func routed(n uint64, xh bool, mk func() func(op string, k interface{}, v int) string) func(op string, k interface{}, v int) string {
	rm := remap.NewReMap(remap.WithPrime(n))
	var shards []func(op string, k interface{}, v int) string
	for i := uint64(0); i < n; i++ {
		shards = append(shards, mk())
	}
	return func(op string, k interface{}, v int) string {
		i := rm.SimpleIndex(k)
		if xh {
			i = rm.XHashIndex(k)
		}
		return shards[i](op, k, v)
	}
}

func lruAfterK(keys []interface{}) func(s *lruPair) string {
	return func(s *lruPair) string {
		for _, k := range keys {
			if a, b := s.wide("Peek", k, 0), s.single("Peek", k, 0); a != b {
				return fmt.Sprintf("Peek(%s): sharded LRU answers %s, the per-shard reference %s", kname(k), a, b)
			}
		}
		return ""
	}
}

func lruAfterOld(s *lruPair) string {
	for _, k := range ckeys {
		if a, b := s.wide("Peek", k, 0), s.single("Peek", k, 0); a != b {
			return fmt.Sprintf("Peek(%s): sharded LRU answers %s, unsharded %s", kname(k), a, b)
		}
	}
	return ""
}

func lruKey(s *lruPair) string {
	var ks []string
	for k, v := range s.model {
		ks = append(ks, fmt.Sprintf("%s=%d", kname(k), v))
	}
	sort.Strings(ks)
	return strings.Join(ks, ";")
}

func facade(c cache.LRUFacade) func(op string, k interface{}, v int) string {
	return func(op string, k interface{}, v int) string {
		switch op {
		case "Set":
			if v%3 == 2 {
				c.Set(k, sval{[]int{v}}) // an uncomparable value now and then
			} else {
				c.Set(k, ival(v))
			}
			return ""
		case "Get":
			x, ok := c.Get(k)
			return fmt.Sprint(x, ok)
		case "Peek":
			x, ok := c.Peek(k)
			return fmt.Sprint(x, ok)
		case "Exist":
			return fmt.Sprint(c.Exist(k))
		}
		return fmt.Sprint(c.Delete(k))
	}
}

func tfacade(c tiny.LRU) func(op string, k interface{}, v int) string {
	return func(op string, k interface{}, v int) string {
		switch op {
		case "Set":
			if v%3 == 2 {
				c.Set(k, []int{v}) // an uncomparable value now and then
			} else {
				c.Set(k, v)
			}
			return ""
		case "Get":
			x, ok := c.Get(k)
			return fmt.Sprint(x, ok)
		case "Peek":
			x, ok := c.Peek(k)
			return fmt.Sprint(x, ok)
		case "Exist":
			return fmt.Sprint(c.Exist(k))
		}
		return fmt.Sprint(c.Delete(k))
	}
}

// ---- lockers: only operations the reference says cannot block ----

type lockPair struct {
	wide, single keylock.Locker
	r            map[interface{}]int
	w            map[interface{}]bool
}

func lockOps() []seq.Op[*lockPair] {
	var o []seq.Op[*lockPair]
	for _, k := range ckeys {
		k := k
		o = append(o, seq.Op[*lockPair]{Name: "Lock(" + kname(k) + ")", Enabled: func(s *lockPair) bool { return !s.w[k] && s.r[k] == 0 },
			Step: func(s *lockPair) (string, string) { s.wide.Lock(k); s.single.Lock(k); s.w[k] = true; return "", "" }})
		o = append(o, seq.Op[*lockPair]{Name: "Unlock(" + kname(k) + ")", Enabled: func(s *lockPair) bool { return s.w[k] },
			Step: func(s *lockPair) (string, string) {
				s.wide.Unlock(k)
				s.single.Unlock(k)
				s.w[k] = false
				return "", ""
			}})
		o = append(o, seq.Op[*lockPair]{Name: "RLock(" + kname(k) + ")", Enabled: func(s *lockPair) bool { return !s.w[k] && s.r[k] < 2 },
			Step: func(s *lockPair) (string, string) { s.wide.RLock(k); s.single.RLock(k); s.r[k]++; return "", "" }})
		o = append(o, seq.Op[*lockPair]{Name: "RUnlock(" + kname(k) + ")", Enabled: func(s *lockPair) bool { return s.r[k] > 0 },
			Step: func(s *lockPair) (string, string) { s.wide.RUnlock(k); s.single.RUnlock(k); s.r[k]--; return "", "" }})
	}
	return o
}

func lockAfter(s *lockPair) string {
	want := 0
	for _, k := range ckeys {
		if s.w[k] || s.r[k] > 0 {
			want++
		}
		r1, w1, p1 := keylock.VerifKeyCounts(s.wide, k)
		r2, w2, p2 := keylock.VerifKeyCounts(s.single, k)
		wr := 0
		if s.w[k] {
			wr = 1
		}
		if r1 != r2 || w1 != w2 || p1 != p2 || r1 != s.r[k] || w1 != wr {
			return fmt.Sprintf("key %s: sharded locker registers r=%d w=%d present=%v, unsharded r=%d w=%d present=%v, held r=%d w=%d", kname(k), r1, w1, p1, r2, w2, p2, s.r[k], wr)
		}
	}
	if a, b := keylock.VerifEntries(s.wide), keylock.VerifEntries(s.single); a != b || a != want {
		return fmt.Sprintf("sharded locker keeps %d entries, unsharded %d, keys in use %d", a, b, want)
	}
	return ""
}

func lockKey(s *lockPair) string {
	var b strings.Builder
	for _, k := range ckeys {
		fmt.Fprintf(&b, "%d%v,", s.r[k], s.w[k])
	}
	return b.String()
}

type tlockPair struct {
	wide, single keylock.TLocker[int]
	r            map[int]int
	w            map[int]bool
}

var tkeys = []int{1, 74, 2, 3}

func tlockOps() []seq.Op[*tlockPair] {
	var o []seq.Op[*tlockPair]
	for _, k := range tkeys {
		k := k
		o = append(o, seq.Op[*tlockPair]{Name: fmt.Sprintf("Lock(%d)", k), Enabled: func(s *tlockPair) bool { return !s.w[k] && s.r[k] == 0 },
			Step: func(s *tlockPair) (string, string) { s.wide.Lock(k); s.single.Lock(k); s.w[k] = true; return "", "" }})
		o = append(o, seq.Op[*tlockPair]{Name: fmt.Sprintf("Unlock(%d)", k), Enabled: func(s *tlockPair) bool { return s.w[k] },
			Step: func(s *tlockPair) (string, string) {
				s.wide.Unlock(k)
				s.single.Unlock(k)
				s.w[k] = false
				return "", ""
			}})
		o = append(o, seq.Op[*tlockPair]{Name: fmt.Sprintf("RLock(%d)", k), Enabled: func(s *tlockPair) bool { return !s.w[k] && s.r[k] < 2 },
			Step: func(s *tlockPair) (string, string) { s.wide.RLock(k); s.single.RLock(k); s.r[k]++; return "", "" }})
		o = append(o, seq.Op[*tlockPair]{Name: fmt.Sprintf("RUnlock(%d)", k), Enabled: func(s *tlockPair) bool { return s.r[k] > 0 },
			Step: func(s *tlockPair) (string, string) { s.wide.RUnlock(k); s.single.RUnlock(k); s.r[k]--; return "", "" }})
	}
	for _, ks := range [][]int{{1, 74}, {1, 2}, {2, 3, 74}, {1, 2, 3, 74}} {
		ks := ks
		free := func(s *tlockPair) bool {
			for _, k := range ks {
				if s.w[k] || s.r[k] > 0 {
					return false
				}
			}
			return true
		}
		o = append(o, seq.Op[*tlockPair]{Name: fmt.Sprintf("Locks(%v)", ks), Enabled: free, Step: func(s *tlockPair) (string, string) {
			s.wide.Locks(ks)
			s.single.Locks(ks)
			for _, k := range ks {
				s.w[k] = true
			}
			return "", ""
		}})
		o = append(o, seq.Op[*tlockPair]{Name: fmt.Sprintf("Unlocks(%v)", ks), Enabled: func(s *tlockPair) bool {
			for _, k := range ks {
				if !s.w[k] {
					return false
				}
			}
			return true
		}, Step: func(s *tlockPair) (string, string) {
			s.wide.Unlocks(ks)
			s.single.Unlocks(ks)
			for _, k := range ks {
				s.w[k] = false
			}
			return "", ""
		}})
		o = append(o, seq.Op[*tlockPair]{Name: fmt.Sprintf("RLocks(%v)", ks), Enabled: func(s *tlockPair) bool {
			for _, k := range ks {
				if s.w[k] || s.r[k] >= 2 {
					return false
				}
			}
			return true
		}, Step: func(s *tlockPair) (string, string) {
			s.wide.RLocks(ks)
			s.single.RLocks(ks)
			for _, k := range ks {
				s.r[k]++
			}
			return "", ""
		}})
		o = append(o, seq.Op[*tlockPair]{Name: fmt.Sprintf("RUnlocks(%v)", ks), Enabled: func(s *tlockPair) bool {
			for _, k := range ks {
				if s.r[k] == 0 {
					return false
				}
			}
			return true
		}, Step: func(s *tlockPair) (string, string) {
			s.wide.RUnlocks(ks)
			s.single.RUnlocks(ks)
			for _, k := range ks {
				s.r[k]--
			}
			return "", ""
		}})
	}
	// read lists with repeated keys (adjacent and not): a list element is one hold, sharded or not, and
	// the holds may be given back in lists grouped differently from the ones that took them
	for _, ks := range [][]int{{1, 1}, {2, 74, 74}, {1, 74, 1}} {
		ks := ks
		mult := map[int]int{}
		for _, k := range ks {
			mult[k]++
		}
		o = append(o, seq.Op[*tlockPair]{Name: fmt.Sprintf("RLocks(%v)", ks), Enabled: func(s *tlockPair) bool {
			for k, m := range mult {
				if s.w[k] || s.r[k]+m > 3 {
					return false
				}
			}
			return true
		}, Step: func(s *tlockPair) (string, string) {
			s.wide.RLocks(ks)
			s.single.RLocks(ks)
			for _, k := range ks {
				s.r[k]++
			}
			return "", ""
		}})
		o = append(o, seq.Op[*tlockPair]{Name: fmt.Sprintf("RUnlocks(%v)", ks), Enabled: func(s *tlockPair) bool {
			for k, m := range mult {
				if s.r[k] < m {
					return false
				}
			}
			return true
		}, Step: func(s *tlockPair) (string, string) {
			s.wide.RUnlocks(ks)
			s.single.RUnlocks(ks)
			for _, k := range ks {
				s.r[k]--
			}
			return "", ""
		}})
	}
	return o
}

func tlockAfter(s *tlockPair) string {
	want := 0
	for _, k := range tkeys {
		if s.w[k] || s.r[k] > 0 {
			want++
		}
	}
	if a, b := keylock.VerifTEntries(s.wide), keylock.VerifTEntries(s.single); a != b || a != want {
		return fmt.Sprintf("sharded generic locker keeps %d entries, unsharded %d, keys in use %d", a, b, want)
	}
	return ""
}

func tlockKey(s *tlockPair) string {
	var b strings.Builder
	for _, k := range tkeys {
		fmt.Fprintf(&b, "%d%v,", s.r[k], s.w[k])
	}
	return b.String()
}

// ---- semaphore maps: acquire with an already-cancelled context is a try-acquire ----

type held struct {
	write bool
	w1    *semap.Weighted
	w2    *semap.Weighted
}

type semPair struct {
	wide, single semap.SemMapper
	holds        map[interface{}][]held
}

func semOps() []seq.Op[*semPair] {
	done, cancel := context.WithCancel(context.Background())
	cancel()
	var o []seq.Op[*semPair]
	for _, k := range ckeys[:5] {
		k := k
		for _, write := range []bool{false, true} {
			write := write
			nm := "AcquireRead"
			if write {
				nm = "AcquireWrite"
			}
			o = append(o, seq.Op[*semPair]{Name: fmt.Sprintf("Try%s(%s)", nm, kname(k)), Enabled: func(s *semPair) bool { return len(s.holds[k]) < 3 }, Step: func(s *semPair) (string, string) {
				var w1, w2 *semap.Weighted
				var e1, e2 error
				if write {
					w1, e1 = s.wide.AcquireWrite(done, k)
					w2, e2 = s.single.AcquireWrite(done, k)
				} else {
					w1, e1 = s.wide.AcquireRead(done, k)
					w2, e2 = s.single.AcquireRead(done, k)
				}
				if (e1 == nil) != (e2 == nil) {
					return fmt.Sprint(e1 == nil), fmt.Sprintf("%s(%s) with a cancelled context: sharded map err=%v, unsharded err=%v", nm, kname(k), e1, e2)
				}
				if e1 == nil {
					s.holds[k] = append(s.holds[k], held{write, w1, w2})
				}
				return fmt.Sprint(e1 == nil), ""
			}})
		}
		o = append(o, seq.Op[*semPair]{Name: fmt.Sprintf("ReleaseNewest(%s)", kname(k)), Enabled: func(s *semPair) bool { return len(s.holds[k]) > 0 }, Step: func(s *semPair) (string, string) {
			h := s.holds[k][len(s.holds[k])-1]
			s.holds[k] = s.holds[k][:len(s.holds[k])-1]
			if h.write {
				s.wide.ReleaseWrite(k, h.w1)
				s.single.ReleaseWrite(k, h.w2)
			} else {
				s.wide.ReleaseRead(k, h.w1)
				s.single.ReleaseRead(k, h.w2)
			}
			return "", ""
		}})
		o = append(o, seq.Op[*semPair]{Name: fmt.Sprintf("ReleaseOldest(%s)", kname(k)), Enabled: func(s *semPair) bool { return len(s.holds[k]) > 1 }, Step: func(s *semPair) (string, string) {
			h := s.holds[k][0]
			s.holds[k] = s.holds[k][1:]
			if h.write {
				s.wide.ReleaseWrite(k, h.w1)
				s.single.ReleaseWrite(k, h.w2)
			} else {
				s.wide.ReleaseRead(k, h.w1)
				s.single.ReleaseRead(k, h.w2)
			}
			return "", ""
		}})
	}
	return o
}

func semAfter(s *semPair) string {
	for _, k := range ckeys[:5] {
		h1, q1, p1 := semap.VerifKeyState(s.wide, k)
		h2, q2, p2 := semap.VerifKeyState(s.single, k)
		if h1 != h2 || q1 != q2 || p1 != p2 {
			return fmt.Sprintf("key %s: sharded semaphore map state held=%d waiters=%d present=%v, unsharded held=%d waiters=%d present=%v", kname(k), h1, q1, p1, h2, q2, p2)
		}
	}
	if a, b := semap.VerifEntries(s.wide), semap.VerifEntries(s.single); a != b {
		return fmt.Sprintf("sharded semaphore map keeps %d entries, unsharded %d", a, b)
	}
	return ""
}

func semKey(s *semPair) string {
	var b strings.Builder
	for _, k := range ckeys[:5] {
		for _, h := range s.holds[k] {
			if h.write {
				b.WriteString("W")
			} else {
				b.WriteString("R")
			}
		}
		h2, q2, p2 := semap.VerifKeyState(s.single, k)
		fmt.Fprintf(&b, "/%d/%d/%v,", h2, q2, p2)
	}
	return b.String()
}

// smallCapacity: every sharded LRU constructor x shard count x capacity around the shard count: every
// key of a key family must reach a shard that exists (no panic), be readable right after it was set
// (each shard holds at least one entry) and be gone after Delete - the parameters of the constructor
// must not make routing and shard storage disagree.
func smallCapacity(c *seq.Ctx) {
	type mk struct {
		name string
		new  func(capacity int64, opt remap.Option) func(op string, k interface{}, v int) string
	}
	mks := []mk{
		{"cache.NeWideLRUCache", func(cp int64, o remap.Option) func(string, interface{}, int) string {
			return facade(cache.NeWideLRUCache(cp, o))
		}},
		{"cache.NewWideXHashLRUCache", func(cp int64, o remap.Option) func(string, interface{}, int) string {
			return facade(cache.NewWideXHashLRUCache(cp, o))
		}},
		{"tiny.NeWideLRU", func(cp int64, o remap.Option) func(string, interface{}, int) string {
			return tfacade(tiny.NeWideLRU(cp, o))
		}},
		{"tiny.NewWideXHashLRU", func(cp int64, o remap.Option) func(string, interface{}, int) string {
			return tfacade(tiny.NewWideXHashLRU(cp, o))
		}},
	}
	for _, m := range mks {
		for _, shards := range []uint64{1, 2, 3, 5, 7, 73, 211} {
			caps := map[int64]bool{1: true, 2: true, int64(shards) - 1: true, int64(shards): true, int64(shards) + 1: true, 2*int64(shards) + 1: true, 100000: true}
			for cp := range caps {
				if cp < 1 {
					continue
				}
				var keys []interface{}
				for i := 0; i <= int(2*shards)+1; i++ {
					keys = append(keys, i, fmt.Sprintf("k%d", i))
				}
				keys = append(keys, int64(-1), uint32(7), "")
				bad := func() (b string) {
					defer func() {
						if x := recover(); x != nil {
							b = fmt.Sprintf("panic: %v", x)
						}
					}()
					f := m.new(cp, remap.WithPrime(shards))
					for i, k := range keys {
						f("Set", k, 3*i+1) // 1 mod 3: the facades store a plain int for these
						if got, want := f("Get", k, 0), fmt.Sprint(3*i+1, true); got != want {
							return fmt.Sprintf("Get(%v) right after Set = %s, want %s", k, got, want)
						}
						if got := f("Exist", k, 0); got != "true" {
							return fmt.Sprintf("Exist(%v) right after Set = %s", k, got)
						}
					}
					for _, k := range keys {
						f("Delete", k, 0)
						if got := f("Peek", k, 0); !strings.HasSuffix(got, "false") {
							return fmt.Sprintf("Peek(%v) after Delete = %s", k, got)
						}
					}
					return ""
				}()
				c.Case(fmt.Sprintf("%s/ok=%v", m.name, bad == ""), bad, m.name+" with a capacity near the shard count: "+firstWords(bad), func() interface{} {
					return map[string]interface{}{"constructor": m.name, "shards": shards, "capacity": cp}
				})
			}
		}
	}
}

func firstWords(s string) string {
	if i := strings.IndexAny(s, "(:"); i > 0 {
		return s[:i]
	}
	return s
}

func main() {
	r := ev.Start("C17")
	r.Rule("routing: shard counts 1..128, 211, 509, 1024, 4093 x every supported key type at its boundary values (all int8/uint8, boundary sets of the wider types incl. negatives and MaxUint64, strings/[]byte/Bs of length 0..3 over 3 bytes, HitGroup) through SimpleIndex and XHashIndex: in range, stable across calls and instances; SearchIndex on boundary probes k*(Max/n)+{-1,0,1,2,mid}: monotone, no shard skipped, ends at 0 and n-1. containers: breadth-first over operation sequences on (sharded, unsharded) pairs of Map, LRU, tiny LRU, KeyLocker, TKeyLocker (incl. multi-key calls, and for the generic locker read lists with repeated keys released in other groupings), SemMap for 1,2,3,73 shards with modulo and xxhash routing, merged on the reference state, answers and hook-observed entry counts compared after every step; sharded LRUs with a binding capacity (1-2 shards, capacity 1/3) against per-shard unsharded LRUs routed by the public index, every answer and eviction, all sequences to depth 4/5; every sharded LRU constructor x 1..211 shards x capacities 1,2,shards-1..shards+1,2*shards+1: every key of a family is routed to an existing shard, readable right after Set and gone after Delete")
	r.Assume("in the differential specs the LRU capacity is large enough that the per-shard bound never binds; the binding-capacity specs compare with n unsharded LRUs of the per-shard capacity routed by the public index", "locker and semaphore sequences contain only calls that cannot block (acquire with an already-cancelled context is a try-acquire)")
	var jobs []func()
	jobs = append(jobs, func() { seq.RunFamily(r, seq.Family{Name: "routing", Run: routing}) })
	jobs = append(jobs, func() {
		seq.RunFamily(r, seq.Family{Name: "sharded-lru/capacity-near-shard-count", Run: smallCapacity})
	})
	for _, prime := range []uint64{1, 2, 3, 73} {
		for _, xh := range []bool{false, true} {
			prime, xh := prime, xh
			tag := fmt.Sprintf("shards=%d/xxhash=%v", prime, xh)
			opt := remap.WithPrime(prime)
			d := r.Pick(5, 7)
			jobs = append(jobs, func() {
				seq.Explore(r, &seq.Spec[*mapPair]{Name: "WideMap-vs-Map/" + tag, Ops: mapOps(), After: mapAfter, Key: mapKey, Depth: d + 3, New: func() *mapPair {
					w := cache.NewWideMap(opt)
					if xh {
						w = cache.NewWideXHashMap(opt)
					}
					return &mapPair{wide: w, single: cache.NewSingleMap()}
				}})
			})
			jobs = append(jobs, func() {
				seq.Explore(r, &seq.Spec[*lruPair]{Name: "WideLRU-vs-LRU/" + tag, Ops: lruOps(), After: lruAfter, Key: lruKey, Depth: d + 3, New: func() *lruPair {
					w := cache.NeWideLRUCache(100000, opt)
					if xh {
						w = cache.NewWideXHashLRUCache(100000, opt)
					}
					return &lruPair{wide: facade(w), single: facade(cache.NewSingleLRUCache(100000)), model: map[interface{}]int{}}
				}})
			})
			jobs = append(jobs, func() {
				seq.Explore(r, &seq.Spec[*lruPair]{Name: "tinyWideLRU-vs-LRU/" + tag, Ops: lruOps(), After: lruAfter, Key: lruKey, Depth: d + 3, New: func() *lruPair {
					w := tiny.NeWideLRU(100000, opt)
					if xh {
						w = tiny.NewWideXHashLRU(100000, opt)
					}
					return &lruPair{wide: tfacade(w), single: tfacade(tiny.NewSingleLRUCache(100000)), model: map[interface{}]int{}}
				}})
			})
			jobs = append(jobs, func() {
				seq.Explore(r, &seq.Spec[*lockPair]{Name: "KeyLockerGrp-vs-KeyLocker/" + tag, Ops: lockOps(), After: lockAfter, Key: lockKey, Depth: d + 2, New: func() *lockPair {
					w := keylock.NewKeyLockeGrp(opt)
					if xh {
						w = keylock.NewXHashKeyLockeGrp(opt)
					}
					return &lockPair{wide: w, single: keylock.NewKeyLocker(), r: map[interface{}]int{}, w: map[interface{}]bool{}}
				}})
			})
			jobs = append(jobs, func() {
				seq.Explore(r, &seq.Spec[*tlockPair]{Name: "TKeyLockerGrp-vs-TKeyLocker/" + tag, Ops: tlockOps(), After: tlockAfter, Key: tlockKey, Depth: d + 2, New: func() *tlockPair {
					w := keylock.NewTKeyLockeGrp[int](opt)
					if xh {
						w = keylock.NewTXHashTKeyLockeGrp[int](opt)
					}
					return &tlockPair{wide: w, single: keylock.NewTKeyLocker[int](), r: map[int]int{}, w: map[int]bool{}}
				}})
			})
			jobs = append(jobs, func() {
				seq.Explore(r, &seq.Spec[*semPair]{Name: "WideSemMap-vs-SemMap/" + tag, Ops: semOps(), After: semAfter, Key: semKey, Depth: d + 1, New: func() *semPair {
					w := semap.NewWideSemMap(semap.WithPrime(prime), semap.WithRwRatio(2))
					if xh {
						w = semap.NewWideXHashSemMap(semap.WithPrime(prime), semap.WithRwRatio(2))
					}
					return &semPair{wide: w, single: semap.NewSemMap(semap.WithRwRatio(2)), holds: map[interface{}][]held{}}
				}})
			})
		}
	}
	// binding capacity: sharded LRU (capacity c, n shards) against n unsharded LRUs of capacity c/n+1
	// routed by the public index - every answer and every eviction must agree (no merging of states:
	// recency matters)
	small := []interface{}{1, 74, 2, 3, "a"}
	for _, n := range []uint64{1, 2} {
		for _, cp := range []int64{1, 3} {
			for _, xh := range []bool{false, true} {
				n, cp, xh := n, cp, xh
				per := cp/int64(n) + 1
				tag := fmt.Sprintf("shards=%d/capacity=%d/xxhash=%v", n, cp, xh)
				jobs = append(jobs, func() {
					seq.Explore(r, &seq.Spec[*lruPair]{Name: "WideLRU-binding-capacity/" + tag, Ops: lruOpsK(small), After: lruAfterK(small), Depth: r.Pick(4, 5), New: func() *lruPair {
						w := cache.NeWideLRUCache(cp, remap.WithPrime(n))
						if xh {
							w = cache.NewWideXHashLRUCache(cp, remap.WithPrime(n))
						}
						return &lruPair{wide: facade(w), single: routed(n, xh, func() func(string, interface{}, int) string { return facade(cache.NewSingleLRUCache(per)) }), model: map[interface{}]int{}}
					}})
				})
				jobs = append(jobs, func() {
					seq.Explore(r, &seq.Spec[*lruPair]{Name: "tinyWideLRU-binding-capacity/" + tag, Ops: lruOpsK(small), After: lruAfterK(small), Depth: r.Pick(4, 5), New: func() *lruPair {
						w := tiny.NeWideLRU(cp, remap.WithPrime(n))
						if xh {
							w = tiny.NewWideXHashLRU(cp, remap.WithPrime(n))
						}
						return &lruPair{wide: tfacade(w), single: routed(n, xh, func() func(string, interface{}, int) string { return tfacade(tiny.NewSingleLRUCache(per)) }), model: map[interface{}]int{}}
					}})
				})
			}
		}
	}
	seq.Parallel(16, jobs)
	r.Finish()
}
