// C04: LRU caches — capacity bound, exact recency eviction, size accounting (engine H).
package main

import (
	"fmt"
	"os"
	"strings"

	"github.com/pinealctx/neptune/cache"
	"github.com/pinealctx/neptune/cache/tiny"
	"github.com/pinealctx/neptune/remap"

	"verifh/ev"
	"verifh/mc"
	"verifh/seq"
)

type val struct{ id, size int }

func (v *val) Size() int { return v.size }

// full: the complete single-cache API, adapted for both packages
type full struct {
	set                               func(k string, v *val)
	setIfAbsent                       func(k string, v *val)
	setAndGetRemoved                  func(k string, v *val) []*val
	removedHistory                    func() []string // re-reads every slice SetAndGetRemoved has returned so far
	get, peek                         func(k string) (*val, bool)
	exist                             func(k string) bool
	del                               func(k string) bool
	clear                             func()
	setCapacity                       func(c int64)
	keys                              func() []string
	items                             func() []string               // "key:id"
	rawAgain                          func() (keys, items []string) // re-reads the slices the last keys()/items() calls returned
	stats                             func() (l, s, c, e int64)
	length, size, capacity, evictions func() int64
}

func fromCache(c *cache.LRUCache) *full {
	var raws [][]cache.Value
	var lastK []interface{}
	var lastI []cache.Item
	toV := func(v cache.Value, ok bool) (*val, bool) {
		if v == nil {
			return nil, ok
		}
		return v.(*val), ok
	}
	return &full{
		set:         func(k string, v *val) { c.Set(k, v) },
		setIfAbsent: func(k string, v *val) { c.SetIfAbsent(k, v) },
		setAndGetRemoved: func(k string, v *val) []*val {
			var o []*val
			raw := c.SetAndGetRemoved(k, v)
			raws = append(raws, raw)
			for _, x := range raw {
				o = append(o, x.(*val))
			}
			return o
		},
		removedHistory: func() []string {
			var o []string
			for _, raw := range raws {
				var l []*val
				for _, x := range raw {
					l = append(l, x.(*val))
				}
				o = append(o, ids(l))
			}
			return o
		},
		get:   func(k string) (*val, bool) { return toV(c.Get(k)) },
		peek:  func(k string) (*val, bool) { return toV(c.Peek(k)) },
		exist: func(k string) bool { return c.Exist(k) },
		del:   func(k string) bool { return c.Delete(k) },
		clear: c.Clear, setCapacity: c.SetCapacity,
		keys: func() []string {
			var o []string
			lastK = c.Keys()
			for _, k := range lastK {
				o = append(o, k.(string))
			}
			return o
		},
		items: func() []string {
			var o []string
			lastI = c.Items()
			for _, it := range lastI {
				o = append(o, fmt.Sprintf("%v:%d", it.Key, it.Value.(*val).id))
			}
			return o
		},
		rawAgain: func() (ks, is []string) {
			for _, k := range lastK {
				ks = append(ks, k.(string))
			}
			for _, it := range lastI {
				is = append(is, fmt.Sprintf("%v:%d", it.Key, it.Value.(*val).id))
			}
			return
		},
		stats: c.Stats, length: c.Length, size: c.Size, capacity: c.Capacity, evictions: c.Evictions,
	}
}

func fromTiny(c *tiny.LRUCache) *full {
	var raws [][]interface{}
	var lastK []interface{}
	var lastI []tiny.Item
	toV := func(v interface{}, ok bool) (*val, bool) {
		if v == nil {
			return nil, ok
		}
		return v.(*val), ok
	}
	return &full{
		set:         func(k string, v *val) { c.Set(k, v) },
		setIfAbsent: func(k string, v *val) { c.SetIfAbsent(k, v) },
		setAndGetRemoved: func(k string, v *val) []*val {
			var o []*val
			raw := c.SetAndGetRemoved(k, v)
			raws = append(raws, raw)
			for _, x := range raw {
				o = append(o, x.(*val))
			}
			return o
		},
		removedHistory: func() []string {
			var o []string
			for _, raw := range raws {
				var l []*val
				for _, x := range raw {
					l = append(l, x.(*val))
				}
				o = append(o, ids(l))
			}
			return o
		},
		get:   func(k string) (*val, bool) { return toV(c.Get(k)) },
		peek:  func(k string) (*val, bool) { return toV(c.Peek(k)) },
		exist: func(k string) bool { return c.Exist(k) },
		del:   func(k string) bool { return c.Delete(k) },
		clear: c.Clear, setCapacity: c.SetCapacity,
		keys: func() []string {
			var o []string
			lastK = c.Keys()
			for _, k := range lastK {
				o = append(o, k.(string))
			}
			return o
		},
		items: func() []string {
			var o []string
			lastI = c.Items()
			for _, it := range lastI {
				o = append(o, fmt.Sprintf("%v:%d", it.Key, it.Value.(*val).id))
			}
			return o
		},
		rawAgain: func() (ks, is []string) {
			for _, k := range lastK {
				ks = append(ks, k.(string))
			}
			for _, it := range lastI {
				is = append(is, fmt.Sprintf("%v:%d", it.Key, it.Value.(*val).id))
			}
			return
		},
		stats: c.Stats, length: c.Length, size: c.Size, capacity: c.Capacity, evictions: c.Evictions,
	}
}

// ---- reference LRU: slice, front = most recently used ----

type ment struct {
	k string
	v *val
	w int64 // weight
}

type mlru struct {
	ents     []ment
	capacity int64
	size     int64
	evict    int64
	unit     bool // every entry weighs 1 (tiny)
}

func (m *mlru) find(k string) int {
	for i, e := range m.ents {
		if e.k == k {
			return i
		}
	}
	return -1
}

func (m *mlru) touch(i int) {
	e := m.ents[i]
	copy(m.ents[1:i+1], m.ents[:i])
	m.ents[0] = e
}

func (m *mlru) weight(v *val) int64 {
	if m.unit {
		return 1
	}
	return int64(v.size)
}

func (m *mlru) shrink() []*val {
	var removed []*val
	for m.size > m.capacity {
		last := m.ents[len(m.ents)-1]
		m.ents = m.ents[:len(m.ents)-1]
		m.size -= last.w
		m.evict++
		removed = append(removed, last.v)
	}
	return removed
}

func (m *mlru) set(k string, v *val) []*val {
	if i := m.find(k); i >= 0 {
		m.size += m.weight(v) - m.ents[i].w
		m.ents[i].v, m.ents[i].w = v, m.weight(v)
		m.touch(i)
	} else {
		m.ents = append([]ment{{k, v, m.weight(v)}}, m.ents...)
		m.size += m.weight(v)
	}
	return m.shrink()
}

func (m *mlru) clone() *mlru {
	c := *m
	c.ents = append([]ment(nil), m.ents...)
	return &c
}

func (m *mlru) keys() []string {
	var o []string
	for _, e := range m.ents {
		o = append(o, e.k)
	}
	return o
}

func (m *mlru) items() []string {
	var o []string
	for _, e := range m.ents {
		o = append(o, fmt.Sprintf("%s:%d", e.k, e.v.id))
	}
	return o
}

type st struct {
	c                   *full
	m                   *mlru
	next                int
	removed             []string        // ids of every list SetAndGetRemoved returned, as they read at return time
	prevKeys, prevItems []string        // what Keys()/Items() returned after the previous step …
	rawKeys             func() []string // … and a re-reader of those very slices
}

func (s *st) newVal(size int) *val { s.next++; return &val{s.next, size} }

func ids(vs []*val) string {
	var o []string
	for _, v := range vs {
		o = append(o, fmt.Sprint(v.id))
	}
	return strings.Join(o, ",")
}

func vstr(v *val, ok bool) string {
	if v == nil {
		return fmt.Sprintf("nil,%v", ok)
	}
	return fmt.Sprintf("#%d,%v", v.id, ok)
}

func mget(m *mlru, k string, touch bool) string {
	i := m.find(k)
	if i < 0 {
		return "nil,false"
	}
	v := m.ents[i].v
	if touch {
		m.touch(i)
	}
	return vstr(v, true)
}

func after(s *st) string {
	c, m := s.c, s.m
	if len(s.removed) > 0 {
		now := c.removedHistory()
		for i := range s.removed {
			if i < len(now) && now[i] != s.removed[i] {
				return fmt.Sprintf("the list of removed values SetAndGetRemoved call #%d returned was [%s] when it returned and reads [%s] after a later operation (it aliases storage the cache keeps using)", i+1, s.removed[i], now[i])
			}
		}
	}
	if s.prevKeys != nil || s.prevItems != nil {
		ks, is := c.rawAgain()
		if strings.Join(ks, ",") != strings.Join(s.prevKeys, ",") || strings.Join(is, ",") != strings.Join(s.prevItems, ",") {
			return fmt.Sprintf("the slices Keys()/Items() returned before this operation read [%s]/[%s] then and [%s]/[%s] now (they alias storage the cache keeps using)", strings.Join(s.prevKeys, ","), strings.Join(s.prevItems, ","), strings.Join(ks, ","), strings.Join(is, ","))
		}
	}
	defer func() { s.prevKeys, s.prevItems = c.rawAgain() }()
	if g, w := strings.Join(c.keys(), ","), strings.Join(m.keys(), ","); g != w {
		return fmt.Sprintf("Keys() (most to least recent) = [%s], ideal LRU holds [%s]", g, w)
	}
	if g, w := strings.Join(c.items(), ","), strings.Join(m.items(), ","); g != w {
		return fmt.Sprintf("Items() = [%s], ideal LRU holds [%s]", g, w)
	}
	l, sz, cp, e := c.stats()
	if l != int64(len(m.ents)) || sz != m.size || cp != m.capacity || e != m.evict {
		return fmt.Sprintf("Stats() = (len %d,size %d,cap %d,evictions %d), ideal LRU (%d,%d,%d,%d)", l, sz, cp, e, len(m.ents), m.size, m.capacity, m.evict)
	}
	if c.length() != l || c.size() != sz || c.capacity() != cp || c.evictions() != e {
		return "Length/Size/Capacity/Evictions disagree with Stats"
	}
	if sz > cp {
		return fmt.Sprintf("summed size %d exceeds capacity %d after the operation returned", sz, cp)
	}
	return ""
}

func key(s *st) string {
	// complete observable state: order, weights, capacity.  Evictions is a pure accumulator.  Results
	// of earlier SetAndGetRemoved calls that the caller still holds are part of the state as well (they
	// must stay valid): how many are outstanding and how long the last two were.
	var b strings.Builder
	n := len(s.removed)
	fmt.Fprintf(&b, "held%d", min(n, 2))
	for i := max(0, n-2); i < n; i++ {
		fmt.Fprintf(&b, "/%d", strings.Count(s.removed[i], ",")+btoi(s.removed[i] != ""))
	}
	b.WriteString("|")
	for _, e := range s.m.ents {
		fmt.Fprintf(&b, "%s/%d,", e.k, e.w)
	}
	fmt.Fprintf(&b, "|%d|", s.m.capacity)
	b.WriteString(strings.Join(s.c.keys(), ","))
	return b.String()
}

func btoi(b bool) int {
	if b {
		return 1
	}
	return 0
}

func cmp(name, got, want string) (string, string) {
	if got != want {
		return got, fmt.Sprintf("%s returned %s, ideal LRU says %s", name, got, want)
	}
	return got, ""
}

var fullKeys = []string{"a", "b", "c"}

func fullOps(sizes []int, caps []int64) []seq.Op[*st] {
	var o []seq.Op[*st]
	keys := fullKeys
	for _, k := range keys {
		k := k
		for _, sz := range sizes {
			sz := sz
			o = append(o, seq.Op[*st]{Name: fmt.Sprintf("Set(%s,size=%d)", k, sz), Step: func(s *st) (string, string) {
				v := s.newVal(sz)
				s.c.set(k, v)
				s.m.set(k, v)
				return "", ""
			}})
			o = append(o, seq.Op[*st]{Name: fmt.Sprintf("SetAndGetRemoved(%s,size=%d)", k, sz), Step: func(s *st) (string, string) {
				v := s.newVal(sz)
				got := s.c.setAndGetRemoved(k, v)
				present := s.m.find(k) >= 0
				want := s.m.set(k, v)
				if s.m.unit && present {
					// the unit-size cache cannot evict on an in-place update; it reports nothing
					want = nil
				}
				s.removed = append(s.removed, ids(got))
				return cmp("SetAndGetRemoved", "removed["+ids(got)+"]", "removed["+ids(want)+"]")
			}})
		}
		for _, sz := range sizes[:min(2, len(sizes))] {
			sz := sz
			o = append(o, seq.Op[*st]{Name: fmt.Sprintf("SetIfAbsent(%s,size=%d)", k, sz), Step: func(s *st) (string, string) {
				v := s.newVal(sz)
				s.c.setIfAbsent(k, v)
				if i := s.m.find(k); i >= 0 {
					// the statement does not say whether a refused SetIfAbsent counts as a use: admit both
					alt := s.m.clone()
					alt.touch(i)
					if strings.Join(s.c.keys(), ",") == strings.Join(alt.keys(), ",") {
						s.m = alt
						return "present/refreshed", ""
					}
					return "present/untouched", ""
				}
				s.m.set(k, v)
				return "absent", ""
			}})
		}
		for _, sz := range sizes[1:min(3, len(sizes))] {
			sz := sz
			// the caller mutates a cached object (its Size changes) and stores the SAME object again to have it re-accounted
			o = append(o, seq.Op[*st]{Name: fmt.Sprintf("ResizeAndSetSameObject(%s,size=%d)", k, sz), Enabled: func(s *st) bool { return s.m.find(k) >= 0 && !s.m.unit }, Step: func(s *st) (string, string) {
				v := s.m.ents[s.m.find(k)].v
				v.size = sz
				s.c.set(k, v)
				s.m.set(k, v)
				return "", ""
			}})
		}
		o = append(o, seq.Op[*st]{Name: "Get(" + k + ")", Step: func(s *st) (string, string) {
			return cmp("Get", vstr(s.c.get(k)), mget(s.m, k, true))
		}})
		o = append(o, seq.Op[*st]{Name: "Peek(" + k + ")", Step: func(s *st) (string, string) {
			return cmp("Peek", vstr(s.c.peek(k)), mget(s.m, k, false))
		}})
		o = append(o, seq.Op[*st]{Name: "Exist(" + k + ")", Step: func(s *st) (string, string) {
			return cmp("Exist", fmt.Sprint(s.c.exist(k)), fmt.Sprint(s.m.find(k) >= 0))
		}})
		o = append(o, seq.Op[*st]{Name: "Delete(" + k + ")", Step: func(s *st) (string, string) {
			got := s.c.del(k)
			i := s.m.find(k)
			if i >= 0 {
				s.m.size -= s.m.ents[i].w
				s.m.ents = append(s.m.ents[:i:i], s.m.ents[i+1:]...)
			}
			return cmp("Delete", fmt.Sprint(got), fmt.Sprint(i >= 0))
		}})
	}
	o = append(o, seq.Op[*st]{Name: "Clear", Step: func(s *st) (string, string) {
		s.c.clear()
		s.m.ents, s.m.size = nil, 0
		return "", ""
	}})
	for _, c := range caps {
		c := c
		o = append(o, seq.Op[*st]{Name: fmt.Sprintf("SetCapacity(%d)", c), Step: func(s *st) (string, string) {
			s.c.setCapacity(c)
			s.m.capacity = c
			s.m.shrink()
			return "", ""
		}})
	}
	return o
}

// ---- wide variants: Get/Peek/Exist/Set/Delete only, per-shard ideal LRU ----

type wide struct {
	set        func(k int, v *val)
	get, peek  func(k int) (*val, bool)
	exist, del func(k int) bool
}

type wst struct {
	w      *wide
	shards []*mlru
	route  func(k int) int
	next   int
}

var wkeys = []int{0, 1, 2, 3, 6, 7}

func wafter(s *wst) string {
	for _, k := range wkeys {
		m := s.shards[s.route(k)]
		kk := fmt.Sprint(k)
		if g, w := vstr(s.w.peek(k)), mget(m, kk, false); g != w {
			return fmt.Sprintf("after the step Peek(%d) = %s, per-shard ideal LRU says %s", k, g, w)
		}
		if g, w := s.w.exist(k), m.find(kk) >= 0; g != w {
			return fmt.Sprintf("after the step Exist(%d) = %v, per-shard ideal LRU says %v", k, g, w)
		}
	}
	return ""
}

func wkey(s *wst) string {
	var b strings.Builder
	for _, m := range s.shards {
		for _, e := range m.ents {
			fmt.Fprintf(&b, "%s/%d,", e.k, e.w)
		}
		b.WriteString("|")
	}
	return b.String()
}

func wideOps(sizes []int) []seq.Op[*wst] {
	var o []seq.Op[*wst]
	for _, k := range wkeys {
		k := k
		kk := fmt.Sprint(k)
		for _, sz := range sizes {
			sz := sz
			o = append(o, seq.Op[*wst]{Name: fmt.Sprintf("Set(%d,size=%d)", k, sz), Step: func(s *wst) (string, string) {
				s.next++
				v := &val{s.next, sz}
				s.w.set(k, v)
				s.shards[s.route(k)].set(kk, v)
				return "", ""
			}})
		}
		o = append(o, seq.Op[*wst]{Name: fmt.Sprintf("Get(%d)", k), Step: func(s *wst) (string, string) {
			return cmp("Get", vstr(s.w.get(k)), mget(s.shards[s.route(k)], kk, true))
		}})
		o = append(o, seq.Op[*wst]{Name: fmt.Sprintf("Delete(%d)", k), Step: func(s *wst) (string, string) {
			got := s.w.del(k)
			m := s.shards[s.route(k)]
			i := m.find(kk)
			if i >= 0 {
				m.size -= m.ents[i].w
				m.ents = append(m.ents[:i:i], m.ents[i+1:]...)
			}
			return cmp("Delete", fmt.Sprint(got), fmt.Sprint(i >= 0))
		}})
	}
	return o
}

// ---- observers as operations ----
//
// In the specs above Keys/Items/Stats are read after EVERY step.  An implementation that remembers
// something from one observer call to the next (a cached view, a lazily rebuilt index) is then never
// given two mutations between two observations.  Here the observers are ordinary letters of the
// alphabet, four keys, nothing is read behind the explorer's back; the state key holds the ideal order
// plus what the last Keys / Items call returned (all an implementation could have remembered).
type ost struct {
	keysFn, itemsFn func() string
	set             func(k string, v *val)
	get             func(k string) (*val, bool)
	del             func(k string) bool
	m               *mlru
	lastKeys        string
	lastItems       string
	next            int
}

func obsOps() []seq.Op[*ost] {
	var o []seq.Op[*ost]
	for _, k := range []string{"a", "b", "c", "d"} {
		k := k
		o = append(o, seq.Op[*ost]{Name: "Set(" + k + ")", Step: func(s *ost) (string, string) {
			v := &val{7, 1}
			s.set(k, v)
			s.m.set(k, v)
			return "", ""
		}})
		o = append(o, seq.Op[*ost]{Name: "Get(" + k + ")", Step: func(s *ost) (string, string) {
			v, ok := s.get(k)
			want := mget(s.m, k, true)
			return cmp("Get("+k+")", vstr(v, ok), want)
		}})
		o = append(o, seq.Op[*ost]{Name: "Delete(" + k + ")", Step: func(s *ost) (string, string) {
			got := s.del(k)
			i := s.m.find(k)
			if i >= 0 {
				s.m.size -= s.m.ents[i].w
				s.m.ents = append(s.m.ents[:i:i], s.m.ents[i+1:]...)
			}
			return cmp("Delete("+k+")", fmt.Sprint(got), fmt.Sprint(i >= 0))
		}})
	}
	o = append(o, seq.Op[*ost]{Name: "Keys()", Step: func(s *ost) (string, string) {
		s.lastKeys = s.keysFn()
		return cmp("Keys()", s.lastKeys, fmt.Sprint(s.m.keys()))
	}})
	o = append(o, seq.Op[*ost]{Name: "Items()", Step: func(s *ost) (string, string) {
		s.lastItems = s.itemsFn()
		return cmp("Items()", s.lastItems, fmt.Sprint(s.m.items()))
	}})
	return o
}

func obsKey(s *ost) string {
	return fmt.Sprint(s.m.keys()) + "|" + s.lastKeys + "|" + s.lastItems
}

func main() {
	r := ev.Start("C04")
	r.Rule("breadth-first over all operation sequences (Set/SetIfAbsent/SetAndGetRemoved x keys a,b,c x sizes 0,1,2,5; Get/Peek/Exist/Delete; Clear; SetCapacity 0,1,3,4) on the real cache.LRUCache and tiny.LRUCache until no new state appears, states = (recency order, entry weights, capacity) which is the complete observable state; after every step the call's result, Keys, Items (value identity), Stats/Length/Size/Capacity/Evictions and Size<=Capacity are compared with a slice-based ideal LRU; a second spec per cache in which Keys/Items are ordinary operations over four keys and nothing is observed between the letters (state key = ideal order + what the last Keys/Items returned); wide variants (1,2,3 shards, modulo and xxhash) against one ideal LRU per shard with every key probed by Peek/Exist after every step; distinct = (op, result) pairs")
	r.Assume("SetIfAbsent on a present key may or may not refresh recency (statement silent)", "an item larger than the capacity is evicted together with everything older (strict LRU order)")
	var jobs []func()
	sizes, caps := []int{0, 1, 2, 5}, []int64{0, 1, 3, 4}
	// four keys with few sizes: one call may have to evict three resident entries and the new one
	fullKeys = []string{"a", "b", "c", "d"}
	ops4 := fullOps([]int{1, 5}, []int64{3, 5})
	fullKeys = []string{"a", "b", "c"}
	if !r.Quick() {
		fullKeys = []string{"a", "b", "c", "d"}
		sizes, caps = []int{0, 1, 2, 3, 5}, []int64{0, 1, 3, 4, 6}
	}
	jobs = append(jobs, func() {
		seq.Explore(r, &seq.Spec[*st]{Name: "cache.LRUCache/four-keys", Ops: ops4, Key: key, After: after, Depth: r.Pick(9, 14),
			New: func() *st { return &st{c: fromCache(cache.NewLRUCache(3)), m: &mlru{capacity: 3}} }})
	})
	jobs = append(jobs, func() {
		seq.Explore(r, &seq.Spec[*st]{Name: "cache.LRUCache", Ops: fullOps(sizes, caps), Key: key, After: after, Depth: r.Pick(12, 40),
			New: func() *st { return &st{c: fromCache(cache.NewLRUCache(3)), m: &mlru{capacity: 3}} }})
	})
	jobs = append(jobs, func() {
		seq.Explore(r, &seq.Spec[*st]{Name: "tiny.LRUCache", Ops: fullOps([]int{1}, []int64{0, 1, 2, 3}), Key: key, After: after, Depth: r.Pick(12, 40),
			New: func() *st { return &st{c: fromTiny(tiny.NewLRUCache(2)), m: &mlru{capacity: 2, unit: true}} }})
	})
	jobs = append(jobs, func() {
		seq.Explore(r, &seq.Spec[*ost]{Name: "cache.LRUCache/observers-as-operations", Ops: obsOps(), Key: obsKey, Depth: r.Pick(9, 12), New: func() *ost {
			c := cache.NewLRUCache(4)
			return &ost{m: &mlru{capacity: 4},
				keysFn: func() string {
					var o []string
					for _, k := range c.Keys() {
						o = append(o, fmt.Sprint(k))
					}
					return fmt.Sprint(o)
				},
				itemsFn: func() string {
					var o []string
					for _, it := range c.Items() {
						o = append(o, fmt.Sprintf("%v:%d", it.Key, it.Value.(*val).id))
					}
					return fmt.Sprint(o)
				},
				set: func(k string, v *val) { c.Set(k, v) },
				get: func(k string) (*val, bool) {
					v, ok := c.Get(k)
					if v == nil {
						return nil, ok
					}
					return v.(*val), ok
				},
				del: func(k string) bool { return c.Delete(k) }}
		}})
	})
	jobs = append(jobs, func() {
		seq.Explore(r, &seq.Spec[*ost]{Name: "tiny.LRUCache/observers-as-operations", Ops: obsOps(), Key: obsKey, Depth: r.Pick(9, 12), New: func() *ost {
			c := tiny.NewLRUCache(4)
			return &ost{m: &mlru{capacity: 4, unit: true},
				keysFn: func() string {
					var o []string
					for _, k := range c.Keys() {
						o = append(o, fmt.Sprint(k))
					}
					return fmt.Sprint(o)
				},
				itemsFn: func() string {
					var o []string
					for _, it := range c.Items() {
						o = append(o, fmt.Sprintf("%v:%d", it.Key, it.Value.(*val).id))
					}
					return fmt.Sprint(o)
				},
				set: func(k string, v *val) { c.Set(k, v) },
				get: func(k string) (*val, bool) {
					v, ok := c.Get(k)
					if v == nil {
						return nil, ok
					}
					return v.(*val), ok
				},
				del: func(k string) bool { return c.Delete(k) }}
		}})
	})
	for _, prime := range []uint64{1, 2, 3} {
		for _, xh := range []bool{false, true} {
			for _, total := range []int64{1, 4} {
				prime, xh, total := prime, xh, total
				per := total/int64(prime) + 1
				rm := remap.NewReMap(remap.WithPrime(prime))
				route := rm.SimpleIndex
				if xh {
					route = rm.XHashIndex
				}
				newShards := func(unit bool) []*mlru {
					var o []*mlru
					for i := uint64(0); i < prime; i++ {
						o = append(o, &mlru{capacity: per, unit: unit})
					}
					return o
				}
				name := fmt.Sprintf("shards=%d/xxhash=%v/capacity=%d", prime, xh, total)
				jobs = append(jobs, func() {
					seq.Explore(r, &seq.Spec[*wst]{Name: "cache.WideLRUCache/" + name, Ops: wideOps([]int{1, 2}), Key: wkey, After: wafter, Depth: r.Pick(7, 12),
						New: func() *wst {
							var c cache.LRUFacade
							if xh {
								c = cache.NewWideXHashLRUCache(total, remap.WithPrime(prime))
							} else {
								c = cache.NeWideLRUCache(total, remap.WithPrime(prime))
							}
							toV := func(v cache.Value, ok bool) (*val, bool) {
								if v == nil {
									return nil, ok
								}
								return v.(*val), ok
							}
							return &wst{route: func(k int) int { return route(k) }, shards: newShards(false), w: &wide{
								set:   func(k int, v *val) { c.Set(k, v) },
								get:   func(k int) (*val, bool) { return toV(c.Get(k)) },
								peek:  func(k int) (*val, bool) { return toV(c.Peek(k)) },
								exist: func(k int) bool { return c.Exist(k) }, del: func(k int) bool { return c.Delete(k) }}}
						}})
				})
				jobs = append(jobs, func() {
					seq.Explore(r, &seq.Spec[*wst]{Name: "tiny.WideLRUCache/" + name, Ops: wideOps([]int{1}), Key: wkey, After: wafter, Depth: r.Pick(7, 12),
						New: func() *wst {
							var c tiny.LRU
							if xh {
								c = tiny.NewWideXHashLRU(total, remap.WithPrime(prime))
							} else {
								c = tiny.NeWideLRU(total, remap.WithPrime(prime))
							}
							toV := func(v interface{}, ok bool) (*val, bool) {
								if v == nil {
									return nil, ok
								}
								return v.(*val), ok
							}
							return &wst{route: func(k int) int { return route(k) }, shards: newShards(true), w: &wide{
								set:   func(k int, v *val) { c.Set(k, v) },
								get:   func(k int) (*val, bool) { return toV(c.Get(k)) },
								peek:  func(k int) (*val, bool) { return toV(c.Peek(k)) },
								exist: func(k int) bool { return c.Exist(k) }, del: func(k int) bool { return c.Delete(k) }}}
						}})
				})
			}
		}
	}
	seq.Parallel(16, jobs)
	// the concurrent clause: engine-S companion binary (harness/c04s)
	if r.Only == "" {
		if nd := mc.DriveBin(r, os.Getenv("VERIF_SCHED_BIN")); nd != "" && r.NViolations() == 0 {
			fmt.Println("engine-S companion failed (machinery error, not a verdict):", nd)
			r.Finish0(2)
		}
	}
	r.Finish()
}
