// C05 (concurrent clause): remove-after-get reads racing on one key consume a Set at most once.
package main

import (
	"context"
	"fmt"

	"github.com/pinealctx/neptune/cache"

	"verifh/ev"
	"verifh/mc"
)

var bg = context.Background()

// model: the value currently stored for the key ("" = absent)
type model struct{ v string }

func (m *model) Clone() mc.LinModel { c := *m; return &c }

type opSpec struct {
	kind string // set get getrm remove setnx
	v    string
}

func scenario(threads [][]opSpec, fine bool, pb [2]int) *mc.Scenario {
	return scenarioN(4, threads, fine, pb)
}

func scenarioN(size int, threads [][]opSpec, fine bool, pb [2]int) *mc.Scenario {
	nm := fmt.Sprintf("ttlmem/one-key/%v/fine=%v", threads, fine)
	if size != 4 {
		nm = fmt.Sprintf("ttlmem/size=%d/one-key/%v/fine=%v", size, threads, fine)
	}
	return &mc.Scenario{Name: nm, PB: pb, Fine: fine, Main: func(w *mc.World) {
		c := cache.NewTTLMemCache(size, 0)
		_ = c.Set(bg, "k", []byte("v0"))
		init := &model{"v0"}
		var clk mc.Clock
		var evs []mc.LinEvent
		consumed := map[string]int{}
		for ti, ops := range threads {
			ti, ops := ti, ops
			w.Go(fmt.Sprintf("T%d", ti), func() {
				for _, o := range ops {
					o := o
					w.Touch()
					inv := clk.Tick()
					var got string
					switch o.kind {
					case "set":
						got = fmt.Sprint(c.Set(bg, "k", []byte(o.v)))
					case "setnx":
						got = fmt.Sprint(c.Set(bg, "k", []byte(o.v), cache.WithMustNotExist()))
					case "get":
						v, err := c.Get(bg, "k")
						got = fmt.Sprintf("%s/%v", v, err == nil)
						if err != nil {
							got = "/false"
						}
					case "getrm":
						v, err := c.Get(bg, "k", cache.WithRemoveAfterGet())
						got = fmt.Sprintf("%s/%v", v, err == nil)
						if err != nil {
							got = "/false"
						} else {
							consumed[string(v)]++
						}
					case "remove":
						got = fmt.Sprint(c.Remove(bg, "k"))
					}
					w.Touch()
					ret := clk.Tick()
					evs = append(evs, mc.LinEvent{Inv: inv, Ret: ret, Desc: o.kind + "=" + got, Step: func(lm mc.LinModel) bool {
						m := lm.(*model)
						switch o.kind {
						case "set":
							m.v = o.v
							return got == "<nil>"
						case "setnx":
							if m.v != "" {
								return got != "<nil>"
							}
							m.v = o.v
							return got == "<nil>"
						case "get":
							if m.v == "" {
								return got == "/false"
							}
							return got == m.v+"/true"
						case "getrm":
							if m.v == "" {
								return got == "/false"
							}
							ok := got == m.v+"/true"
							m.v = ""
							return ok
						default:
							m.v = ""
							return got == "<nil>"
						}
					}})
					w.Obs("%s=%s", o.kind, got)
				}
			})
		}
		w.Join()
		w.Touch()
		for v, n := range consumed {
			if n > 1 {
				w.Failf("value %q was handed out by %d remove-after-get reads (one Set may be consumed once)", v, n)
			}
		}
		v, err := c.Get(bg, "k")
		final := ""
		if err == nil {
			final = string(v)
		}
		if !mc.Linearizable(init, evs, func(lm mc.LinModel) bool { return lm.(*model).v == final }) {
			var d []string
			for _, e := range evs {
				d = append(d, fmt.Sprintf("[%d,%d]%s", e.Inv, e.Ret, e.Desc))
			}
			w.Failf("no linearization of the concurrent calls %v explains their results and the final value %q", d, final)
		}
		// epilogue (sequential): whatever the race left behind, the cache must still behave like a cache -
		// a key set now is readable, and stays readable while fewer than `size` other keys are touched
		if err := c.Set(bg, "k", []byte("e1")); err != nil {
			w.Failf("after the concurrent phase Set(k) fails: %v", err)
		}
		if v, err := c.Get(bg, "k"); err != nil || string(v) != "e1" {
			w.Failf("after the concurrent phase a fresh Set(k,e1) is not readable: Get = %q, %v", v, err)
		}
		for i := 1; i < size; i++ {
			_ = c.Set(bg, fmt.Sprint("other", i), []byte("o"))
			if v, err := c.Get(bg, "k"); err != nil || string(v) != "e1" {
				w.Failf("after the concurrent phase: Set(k,e1), then %d other key(s) set (size %d): Get(k) = %q, %v", i, size, v, err)
			}
		}
	}}
}

func main() {
	r := ev.Start("C05")
	GR := opSpec{"getrm", ""}
	progs := [][][]opSpec{
		{{GR}, {GR}, {{"set", "v1"}}},
		{{GR, GR}, {{"set", "v1"}, GR}},
		{{GR}, {{"setnx", "v2"}}, {{"get", ""}}},
		{{{"remove", ""}}, {GR}, {{"set", "v3"}, {"get", ""}}},
	}
	var scs []*mc.Scenario
	for _, p := range progs {
		scs = append(scs, scenario(p, false, [2]int{3, 4}), scenario(p, true, [2]int{2, 2}))
	}
	RM := opSpec{"remove", ""}
	for _, p := range [][][]opSpec{
		{{RM}, {RM, {"set", "v4"}}},
		{{RM}, {GR, {"set", "v5"}}},
		{{RM, {"set", "v6"}}, {RM, {"set", "v7"}}},
		{{GR}, {RM}, {{"set", "v8"}}},
	} {
		for _, size := range []int{1, 2} {
			scs = append(scs, scenarioN(size, p, false, [2]int{3, 4}), scenarioN(size, p, true, [2]int{2, 2}))
		}
	}
	mc.Main(r, scs)
}
