module verifh

go 1.21

require github.com/pinealctx/neptune v0.0.0

replace github.com/pinealctx/neptune => /repo
